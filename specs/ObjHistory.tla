---------------------------- MODULE ObjHistory ----------------------------
(***************************************************************************)
(* Operations on densities never alter the objects they start from         *)
(* (property C11).                                                         *)
(*                                                                         *)
(* An object pool.  Object 1 is a joint distribution over the variables    *)
(* V = 1..N (graphs as in JointCond.tla); objects 2..N+1 are its original  *)
(* factors.  Every object has an immutable abstract identity               *)
(*   [kind, fixed, const, fd, name, origin]                                *)
(* and the actions either CREATE objects (Condition, ToLikelihood, Copy +  *)
(* EnableFD, ApplyModel) or only OBSERVE them (Logd, Gradient, Sample,     *)
(* RunSampler, GibbsSweeps).  The frame condition says that no action      *)
(* changes the identity of an existing object; NameKept that a conditioned *)
(* copy keeps the random-variable name of its original.                    *)
(*                                                                         *)
(* Objects N+2 .. N+1+K are K stand-alone conditional distributions of the *)
(* COMPOSITE families (a distribution wrapping an inner Gaussian:          *)
(* regularized / constrained Gaussians, log-normal): CondFactor conditions *)
(* one on its parameter (a copy), MutateCopy is the user assigning a       *)
(* parameter of a derived COPY - which changes that copy and nothing else   *)
(* (for a derived likelihood: switching finite differences on / off);       *)
(* MutateOriginal is the user assigning a parameter of a stand-alone        *)
(* ORIGINAL after copies were derived from it: the copies made earlier are  *)
(* unchanged.  ToLikelihood has two realisations in the code: conditioning   *)
(* on the data alone, y(y = data), gives a likelihood of a COPY; the method *)
(* to_likelihood(data) gives a VIEW of the distribution it is called on     *)
(* ("enable_FD: call enable_FD of the underlying distribution"): a view has *)
(* no switches of its own, so MutateCopy does not apply to it.  The replay  *)
(* makes both at every ToLikelihood step and follows both.                  *)
(*                                                                         *)
(* Named deviations (FALSE in the deciding configuration):                 *)
(*   DevConstOnOriginal - reduction adds the constants of the evaluated    *)
(*        factors to the ORIGINAL factor object instead of a copy          *)
(*   DevFDOnOriginal    - enabling finite differences on a copy switches   *)
(*        them on in the original                                          *)
(*   DevSharedInner     - a copy shares its inner (wrapped) distribution   *)
(*        with its original: assigning a parameter of the copy changes the *)
(*        original as well (and, for MutateOriginal, a changed original    *)
(*        shows through in the copies derived from it earlier)             *)
(***************************************************************************)
EXTENDS Integers, Sequences, FiniteSets, TLC, Json

CONSTANTS N, K, MaxObjs, MaxDepth, Emit, DevConstOnOriginal, DevFDOnOriginal, DevSharedInner

V == 1..N
VARIABLES objs,   \* sequence of object identities
          hist    \* sequence of actions <<name, object, argument>>
vars == <<objs, hist>>

Obj(kind, fixed, origin, name) == [kind |-> kind, fixed |-> fixed, const |-> {}, fd |-> FALSE, name |-> name, origin |-> origin, ver |-> 0, view |-> FALSE]

Init == /\ objs = <<Obj("joint", {}, 0, 0)>> \o [v \in 1..N |-> Obj("factor", {}, 0, v)]
                  \o [c \in 1..K |-> Obj("composite", {}, 0, N + c)]
        /\ hist = <<>>

Ids == 1..Len(objs)
JointLike(o) == objs[o].kind \in {"joint", "cond"}
Free(o) == V \ objs[o].fixed
Room == Len(objs) < MaxObjs /\ Len(hist) < MaxDepth

RECURSIVE SortedSeq(_)
SortedSeq(S) == IF S = {} THEN <<>> ELSE LET m == CHOOSE x \in S : \A y \in S : x <= y IN <<m>> \o SortedSeq(S \ {m})

\* ---- creating actions ------------------------------------------------------------
Condition(o, S) ==
    /\ Room /\ JointLike(o) /\ S # {} /\ S \subseteq Free(o)
    /\ LET new == [Obj("cond", objs[o].fixed \cup S, o, 0) EXCEPT !.const = objs[o].fixed \cup S]
           \* deviation: the constants land on the original factor object of the remaining variable
           tgt == IF DevConstOnOriginal /\ Cardinality(Free(o) \ S) = 1 THEN 1 + (CHOOSE v \in Free(o) \ S : TRUE) ELSE 0
       IN objs' = [i \in 1..(Len(objs) + 1) |->
                     IF i = Len(objs) + 1 THEN new
                     ELSE IF i = tgt THEN [objs[i] EXCEPT !.const = @ \cup objs[o].fixed \cup S]
                     ELSE objs[i]]
    /\ hist' = Append(hist, <<"condition", o, SortedSeq(S)>>)

ToLikelihood(o, m) ==
    /\ Room /\ objs[o].kind = "factor"
    /\ objs' = Append(objs, [Obj("lik", {objs[o].name}, o, objs[o].name) EXCEPT !.view = (m = "method")])
    /\ hist' = Append(hist, <<"to_likelihood", o, <<m>>>>)

\* i is a view (a likelihood made by the method to_likelihood) of the object o
ViewOf(i, o) == objs[i].view /\ objs[i].origin = o

\* a stand-alone conditional distribution conditioned on its parameter: a new object, the original untouched
CondFactor(o) ==
    /\ Room /\ objs[o].kind = "composite" /\ objs[o].fixed = {}
    /\ objs' = Append(objs, [Obj("composite", {0}, o, objs[o].name) EXCEPT !.ver = 0])
    /\ hist' = Append(hist, <<"cond_factor", o, <<>>>>)

\* the user assigns a parameter of a DERIVED object (never of an original): only that object changes
MutateCopy(o) ==
    /\ Len(hist) < MaxDepth
    /\ objs[o].origin # 0 /\ objs[o].kind \in {"factor", "composite", "lik"} /\ ~objs[o].view
    /\ objs' = [i \in 1..Len(objs) |->
                  IF i = o \/ ViewOf(i, o) THEN [objs[i] EXCEPT !.ver = @ + 1]      \* a view shows its underlying object
                  ELSE IF DevSharedInner /\ i = objs[o].origin THEN [objs[i] EXCEPT !.ver = @ + 1]
                  ELSE objs[i]]
    /\ hist' = Append(hist, <<"mutate_copy", o, <<>>>>)

\* the user assigns a parameter of a stand-alone ORIGINAL: copies derived from it earlier are not affected
MutateOriginal(o) ==
    /\ Len(hist) < MaxDepth
    /\ objs[o].origin = 0 /\ objs[o].kind = "composite"
    /\ objs' = [i \in 1..Len(objs) |->
                  IF i = o THEN [objs[i] EXCEPT !.ver = @ + 1]
                  ELSE IF DevSharedInner /\ objs[i].origin = o THEN [objs[i] EXCEPT !.ver = @ + 1]
                  ELSE objs[i]]
    /\ hist' = Append(hist, <<"mutate_original", o, <<>>>>)

CopyEnableFD(o) ==
    /\ Room /\ objs[o].kind \in {"factor", "cond", "composite", "lik"}
    \* (a likelihood called without arguments, L(), is a copy with its own copy of the distribution - also when L is a view)
    /\ objs' = [i \in 1..(Len(objs) + 1) |->
                  IF i = Len(objs) + 1 THEN [objs[o] EXCEPT !.fd = TRUE, !.origin = o, !.view = FALSE]
                  ELSE IF i = o /\ DevFDOnOriginal THEN [objs[i] EXCEPT !.fd = TRUE]
                  ELSE objs[i]]
    /\ hist' = Append(hist, <<"copy_enable_fd", o, <<>>>>)

ApplyModel(o) ==
    /\ Room /\ objs[o].kind = "factor"
    /\ objs' = Append(objs, Obj("model", {}, o, objs[o].name))
    /\ hist' = Append(hist, <<"apply_model", o, <<>>>>)

\* ---- observing actions ---------------------------------------------------------------
Observe(a, o) ==
    /\ Len(hist) < MaxDepth
    /\ CASE a = "logd" -> TRUE
         [] a = "rename_original" -> objs[o].kind = "composite" /\ objs[o].origin = 0   \* the user renames an ORIGINAL: its
                                                      \* conditioned copies keep "the name of their original", i.e. follow
         [] a = "bad_call" -> objs[o].kind # "model"      \* a malformed call (unknown keyword) that is refused: nothing changes
         [] a = "gradient" -> objs[o].kind # "model"
         [] a = "sample" -> objs[o].kind \in {"factor", "composite"}
         [] a = "run_sampler" -> objs[o].kind = "cond" /\ Cardinality(Free(o)) = 1
         [] a = "gibbs" -> JointLike(o) /\ Cardinality(Free(o)) >= 2
    /\ hist' = Append(hist, <<a, o, <<>>>>)
    /\ UNCHANGED objs

\* one NAMED disjunct per action, so that TLC's coverage report names each of them (an action never taken fails the run)
DoCondition    == \E o \in Ids, S \in SUBSET V : Condition(o, S)
DoToLikelihood == \E o \in Ids, m \in {"method", "call"} : ToLikelihood(o, m)
DoCopyEnableFD == \E o \in Ids : CopyEnableFD(o)
DoApplyModel   == \E o \in Ids : ApplyModel(o)
DoCondFactor   == \E o \in Ids : CondFactor(o)
DoMutateCopy   == \E o \in Ids : MutateCopy(o)
DoMutateOriginal == \E o \in Ids : MutateOriginal(o)
DoObserve      == \E o \in Ids, a \in {"logd", "gradient", "sample", "run_sampler", "gibbs", "bad_call", "rename_original"} : Observe(a, o)
Next == DoCondition \/ DoToLikelihood \/ DoCopyEnableFD \/ DoApplyModel \/ DoCondFactor \/ DoMutateCopy \/ DoMutateOriginal \/ DoObserve
Spec == Init /\ [][Next]_vars

\* ---- properties ------------------------------------------------------------------------
\* nothing but creation: the identity of every existing object is unchanged by every action
Frame == [][\A i \in 1..Len(objs) :
              (hist'[Len(hist')][1] \in {"mutate_copy", "mutate_original"} /\ (hist'[Len(hist')][2] = i \/ ViewOf(i, hist'[Len(hist')][2])))
              \/ objs'[i] = objs[i]]_vars
\* a conditioned / derived copy keeps the name of its original
NameKept == \A i \in Ids : (objs[i].origin # 0 /\ objs[i].kind \in {"lik", "model"}) => objs[i].name = objs[objs[i].origin].name
\* originals never carry constants, and change only when the user assigns to them
Assigned(i) == Cardinality({k \in 1..Len(hist) : hist[k][1] = "mutate_original" /\ hist[k][2] = i})
OriginalsClean == \A i \in 1..(N + 1 + K) : objs[i].const = {} /\ objs[i].fd = FALSE /\ objs[i].ver = Assigned(i)

Emitted == (Emit /\ Len(hist) = MaxDepth) =>
             PrintT("@@CASE " \o ToJson([kind |-> "objhist", n |-> N, k |-> K, hist |-> hist]) \o " @@END")
=============================================================================
