--------------------------- MODULE FamiliesGallery ---------------------------
(***************************************************************************)
(* Property C03, part `Classes` (round 7).                                 *)
(*                                                                         *)
(* "Whenever a distribution ... returns a gradient at a point, that vector *)
(* equals the derivative of the same object's log-density."  The lattice   *)
(* of module Families covers the 14 parametric families; this module       *)
(* closes the decision table over EVERY public class of cuqi.distribution  *)
(* (and the user-defined likelihood) and specifies how the classes whose   *)
(* log-density is defined by nothing but the object itself are judged.     *)
(*                                                                         *)
(* 1. CLASS TABLE.  PublicClasses = the classes exported by                *)
(*    cuqi.distribution.  Every class has its rows in the extended         *)
(*    decision table XOutcome(row, fd) in {Value, Refused, ValueFD}:       *)
(*      the 14 families      -> GradOutcome of module Families             *)
(*      Posterior, MultipleLikelihoodPosterior -> through the likelihood   *)
(*                              cases of Families (ModelDomOutcome)        *)
(*      UserDefinedDistribution: with gradient_func: Value (the callable   *)
(*                              IS the object's gradient), without:        *)
(*                              Refused; enable_FD: ValueFD                *)
(*      DistributionGallery  -> one row per benchmark name: Value /        *)
(*                              ValueFD                                    *)
(*      JointGaussianSqrtPrec-> no log-density, no gradient: Refused       *)
(*      JointDistribution    -> offers no gradient: Refused                *)
(*      _StackedJointDistribution -> Refused; with FD the derivative of    *)
(*                              the sum of its parts                       *)
(*      UserDefinedLikelihood (cuqi.likelihood): pass-through / Refused,   *)
(*                              no finite-difference switch                *)
(*    Invariant ClassTable: the table is total over PublicClasses, a Value *)
(*    needs an analytic gradient, ValueFD needs the FD switch AND a        *)
(*    log-density, "refused where not available".                          *)
(*                                                                         *)
(* 2. SELF-DEFINED LOG-DENSITIES (benchmark gallery; posteriors with a     *)
(*    gallery prior).  There is no documented formula, the property still  *)
(*    says: gradient = derivative of the object's OWN log-density f.  The  *)
(*    reference is the Richardson tableau of central differences of f      *)
(*        D(h)  = (f(x + h e_i) - f(x - h e_i)) / (2 h)                    *)
(*        R1(h) = (4 D(h/2) - D(h)) / 3                                    *)
(*        R2    = (16 R1(h/2) - R1(h)) / 15                                *)
(*    with the steps h = h0, h0/2, h0/4.  TLC checks on the weights that   *)
(*    are EMITTED to the replay                                            *)
(*      RichardsonExact   R2 is the exact derivative of every polynomial   *)
(*                        of degree <= 6 (error O(h^6 f^(7)));  named      *)
(*                        deviation DevFirstOrderWeights (weights 2, -1 of *)
(*                        a step-halving for an O(h) scheme) must be       *)
(*                        refuted                                          *)
(*      RichardsonOrder   it is not exact for degree 7 (the acceptance     *)
(*                        test below is not vacuous)                       *)
(*      EstimateBounds    for the first inexact degrees 7, 8 the true      *)
(*                        error |R2 - f'| is bounded by the last           *)
(*                        correction |R2 - R1(h/2)|, which is what the     *)
(*                        replay uses as error estimate: a reference is    *)
(*                        ACCEPTED only if that estimate (plus the         *)
(*                        rounding bound of the differences) is below      *)
(*                        AcceptRel relative; otherwise the point is       *)
(*                        skipped and counted.  Gradients are compared at  *)
(*                        CompareRel = 10 AcceptRel: a correct gradient    *)
(*                        cannot alarm.                                    *)
(*    Lattice: GalNames x {-GalMax .. GalMax}^2 in steps of 1/GalDen.      *)
(*      SmoothStencil     a point is `smooth` iff it is not in the         *)
(*                        singular set of the benchmark (r = 0 for the     *)
(*                        ring-shaped ones); the whole stencil of a smooth *)
(*                        point stays clear of the singular set (named     *)
(*                        deviation DevStencilAcrossKink refuted)          *)
(*      LatticeCovers     mixture: the lattice has points close to every   *)
(*                        mode, far from all modes, and BETWEEN two        *)
(*                        components of DIFFERENT variance that both       *)
(*                        carry weight (the class in which responsibility  *)
(*                        weights matter); funnel: neck and mouth          *)
(*                                                                         *)
(* 3. STACKED JOINT.  Pairs of configurations of module Families: the      *)
(*    stacked joint density of two independent parts has log-density       *)
(*    logd1 + logd2 and gradient (grad1, grad2) (StackSum).                *)
(*                                                                         *)
(* The module emits the class table, the tableau (weights, steps,          *)
(* tolerances), one case per lattice point and one per stacked pair; the   *)
(* replay is harness/cuqiverif/c03_gallery.py.                             *)
(***************************************************************************)
EXTENDS Families

CONSTANTS DevFirstOrderWeights,    \* named deviation (RichardsonExact must fail); FALSE in the deciding configurations
          DevStencilAcrossKink,    \* named deviation (SmoothStencil must fail); FALSE in the deciding configurations
          GalDen,                  \* lattice step = 1/GalDen
          GalMax                   \* lattice covers [-GalMax, GalMax]^2

\* ======================================================================================================================
\* 1. class table
\* ======================================================================================================================
PublicClasses == <<"Distribution", "Beta", "Cauchy", "CMRF", "Gamma", "ModifiedHalfNormal", "Gaussian", "JointGaussianSqrtPrec",
                   "GMRF", "InverseGamma", "LMRF", "Laplace", "SmoothedLaplace", "Lognormal", "Normal", "Posterior", "Uniform",
                   "UserDefinedDistribution", "DistributionGallery", "JointDistribution", "_StackedJointDistribution",
                   "MultipleLikelihoodPosterior">>
OtherClasses  == <<"UserDefinedLikelihood">>               \* cuqi.likelihood: wraps a user gradient like UserDefinedDistribution
GalNames == <<"CalSom91", "BivariateGaussian", "funnel", "mixture", "squiggle", "donut", "banana">>
GalNameSet == {GalNames[i] : i \in 1..Len(GalNames)}

\* rows of a class: <<row name, kind>>
\*   family    a family of module Families (GradOutcome)         vialik   judged through the likelihood cases of Families
\*   selfdef   log-density defined by the object only            passthru the user's callable is the gradient
\*   nograd    no analytic gradient                              nologd   neither log-density nor gradient
\*   stacked   sum of independent parts                          abstract cannot be instantiated
ClassRows(cls) ==
    CASE cls \in Families_                  -> {<<cls, "family">>}
      [] cls = "Distribution"               -> {<<cls, "abstract">>}
      [] cls \in {"Posterior", "MultipleLikelihoodPosterior"} -> {<<cls, "vialik">>}
      [] cls = "UserDefinedDistribution"    -> {<<"UserDefined:gradient_func", "passthru">>, <<"UserDefined:none", "nograd">>}
      [] cls = "UserDefinedLikelihood"      -> {<<"UserDefinedLikelihood:gradient_func", "passthru">>, <<"UserDefinedLikelihood:none", "nograd">>}
      [] cls = "DistributionGallery"        -> {<<"Gallery:" \o nm, "selfdef">> : nm \in GalNameSet}
      [] cls = "JointGaussianSqrtPrec"      -> {<<cls, "nologd">>}
      [] cls = "JointDistribution"          -> {<<cls, "nologd">>}             \* (has logd, offers no `gradient` at all)
      [] cls = "_StackedJointDistribution"  -> {<<cls, "stacked">>}
      [] OTHER                              -> {}
HasFDSwitch(row) == row[1] \notin {"UserDefinedLikelihood:gradient_func", "UserDefinedLikelihood:none", "JointDistribution"}
HasAnalytic(row) == row[2] \in {"selfdef", "passthru"} \/ (row[2] = "family" /\ row[1] \notin NoGrad) \/ row[2] = "vialik"
HasLogd(row)     == row[2] \notin {"nologd", "abstract"}

XOutcome(row, fd) ==
    CASE row[2] = "family"   -> GradOutcome(row[1], FALSE, "identity", fd)
      [] row[2] = "vialik"   -> IF fd THEN "ValueFD" ELSE ModelDomOutcome("identity")
      [] row[2] \in {"selfdef", "passthru"} -> IF fd /\ HasFDSwitch(row) THEN "ValueFD" ELSE IF fd THEN "Refused" ELSE "Value"
      [] row[2] \in {"nograd", "stacked"}   -> IF fd /\ HasFDSwitch(row) THEN "ValueFD" ELSE "Refused"
      [] OTHER               -> "Refused"

AllClasses == {PublicClasses[i] : i \in 1..Len(PublicClasses)} \cup {OtherClasses[i] : i \in 1..Len(OtherClasses)}
ClassTable ==
    /\ \A cls \in AllClasses : ClassRows(cls) # {}                                       \* total over the public classes
    /\ \A f \in Families_ : f \in AllClasses                                             \* every family of the lattice is a class
    /\ \A cls \in AllClasses : \A row \in ClassRows(cls) : \A fd \in BOOLEAN :
         LET o == XOutcome(row, fd)
         IN /\ o \in Outcomes
            /\ (o = "Value"   => HasAnalytic(row) /\ ~fd)
            /\ (o = "ValueFD" => fd /\ HasFDSwitch(row) /\ HasLogd(row))
            /\ (~HasLogd(row) => o = "Refused")                                          \* no log-density: nothing can be its derivative
            /\ (~fd /\ ~HasAnalytic(row) => o = "Refused")                               \* refused where not available
            /\ (fd /\ HasFDSwitch(row) /\ HasLogd(row) => o = "ValueFD")                 \* FD always yields the derivative

ClassSeq == PublicClasses \o OtherClasses
ClassCase ==
    [kind |-> "classtable",
     classes |-> [i \in 1..Len(ClassSeq) |->
                    LET rows == SetToSeq(ClassRows(ClassSeq[i]))
                    IN [cls |-> ClassSeq[i], public |-> i <= Len(PublicClasses),
                        rows |-> [j \in 1..Len(rows) |->
                                    [row |-> rows[j][1], rkind |-> rows[j][2], value |-> XOutcome(rows[j], FALSE),
                                     fd |-> XOutcome(rows[j], TRUE), fdswitch |-> HasFDSwitch(rows[j]), haslogd |-> HasLogd(rows[j])]]]]]

\* ======================================================================================================================
\* 2. the Richardson tableau of central differences
\* ======================================================================================================================
RichW1 == IF DevFirstOrderWeights THEN <<R(2), R(-1)>> ELSE <<Q(4, 3), Q(-1, 3)>>    \* weights of (value at h/2, value at h)
RichW2 == <<Q(16, 15), Q(-1, 15)>>
H0Pow  == 7                                     \* h0 = 2^-7; steps h0, h0/2, h0/4
RichSteps == <<Q(1, 128), Q(1, 256), Q(1, 512)>>
AcceptRel  == Q(1, 10000000)                    \* 1e-7: a reference is accepted if its error estimate is below this (relative)
CompareRel == Q(1, 1000000)                     \* 1e-6: tolerance of the comparison
ASSUME RichSteps[1] = RInv(Pow2(H0Pow)) /\ RichSteps[2] = RMul(Half, RichSteps[1]) /\ RichSteps[3] = RMul(Half, RichSteps[2])
ASSUME CompareRel = RMul(R(10), AcceptRel)

CD(p(_), x, h) == RDiv(RSub(p(RAdd(x, h)), p(RSub(x, h))), RMul(R(2), h))
Comb(w, fine, coarse) == RAdd(RMul(w[1], fine), RMul(w[2], coarse))
Tableau(p(_), x, h) ==
    LET d0 == CD(p, x, h)  d1 == CD(p, x, RMul(Half, h))  d2 == CD(p, x, RMul(Q(1, 4), h))
        r1a == Comb(RichW1, d1, d0)  r1b == Comb(RichW1, d2, d1)
    IN [r1a |-> r1a, r1b |-> r1b, r2 |-> Comb(RichW2, r1b, r1a)]
\* test polynomials: monomials t^k and one dense polynomial; the identity is polynomial in (x, h): a few integer points decide it
TestX == {R(-2), R(-1), Zero, One, R(2)}
TestH == R(4)                                   \* h, h/2, h/4 = 4, 2, 1: integer stencils (32-bit arithmetic)
Mono(k, t) == RPow(t, k)
DMono(k, t) == IF k = 0 THEN Zero ELSE RMul(R(k), RPow(t, k - 1))
Dense(t)  == RSumSeq([k \in 1..7 |-> RMul(R(k - 4), RPow(t, k - 1))])                 \* -3 - 2t - t^2 + t^4 + 2t^5 + 3t^6
DDense(t) == RSumSeq([k \in 1..7 |-> RMul(R(k - 4), DMono(k - 1, t))])

RichardsonExact ==
    /\ \A k \in 0..6 : \A x \in TestX : Tableau(LAMBDA t : Mono(k, t), x, TestH).r2 = DMono(k, x)
    /\ \A x \in TestX : Tableau(Dense, x, TestH).r2 = DDense(x)
RichardsonOrder == \E x \in TestX : Tableau(LAMBDA t : Mono(7, t), x, TestH).r2 # DMono(7, x)
EstimateBounds ==
    \A k \in {7, 8} : \A x \in TestX :
        LET T == Tableau(LAMBDA t : Mono(k, t), x, TestH)
        IN RLe(RAbs(RSub(T.r2, DMono(k, x))), RAbs(RSub(T.r2, T.r1b)))

TableauCase == [kind |-> "tableau", w1 |-> RichW1, w2 |-> RichW2, steps |-> RichSteps, accept_rel |-> AcceptRel,
                compare_rel |-> CompareRel, exact_degree |-> 6]

\* ---- lattice of the benchmark gallery ---------------------------------------------------------------------------------
GalRange == (0 - GalMax * GalDen)..(GalMax * GalDen)
GalX(s) == <<Q(s.i, GalDen), Q(s.j, GalDen)>>
\* points at which the benchmark's log-density is not differentiable (r = 0: both ring-shaped densities use |x|)
Singular(nm) == IF nm \in {"CalSom91", "donut"} THEN {<<Zero, Zero>>} ELSE {}
MaxNorm(u, v) == RMax(RAbs(RSub(u[1], v[1])), RAbs(RSub(u[2], v[2])))
GalSmooth(nm, x) == DevStencilAcrossKink \/ x \notin Singular(nm)
\* the stencil x +- h e_i, h <= h0, of a smooth point keeps a distance of at least 31 h0 from every singular point
SmoothStencil ==
    c.fam = "Gallery" =>
       (GalSmooth(c.name, GalX(c)) => \A s \in Singular(c.name) : RLe(RMul(R(32), RichSteps[1]), MaxNorm(GalX(c), s)))

\* mixture of three isotropic Gaussians (means / variances of the benchmark, used ONLY to state what the lattice covers)
MixM == <<<<Q(-3, 2), Q(-3, 2)>>, <<Q(3, 2), Q(3, 2)>>, <<R(-2), R(2)>>>>
MixS == <<Q(16, 25), Q(16, 25), Q(1, 4)>>
MixQ(i, x) == RDiv(RAdd(RSq(RSub(x[1], MixM[i][1])), RSq(RSub(x[2], MixM[i][2]))), MixS[i])     \* squared Mahalanobis distance
GalPts == {<<Q(i, GalDen), Q(j, GalDen)>> : i \in GalRange, j \in GalRange}
LatticeCovers ==
    c.fam = "GalTable" =>
      /\ \A i \in 1..3 : \E x \in GalPts : RLe(MixQ(i, x), One)                                       \* close to every mode
      /\ \E x \in GalPts : \A i \in 1..3 : RLe(R(25), MixQ(i, x))                                      \* tail: 5 sigma from all
      /\ \A i \in 1..2 : \E x \in GalPts :                                                             \* between components of
            /\ MixS[i] # MixS[3]                                                                        \* different variance,
            /\ RLe(RAbs(RSub(MixQ(i, x), MixQ(3, x))), R(3)) /\ RLe(MixQ(i, x), R(16))                  \* both carrying weight
      /\ \E x \in GalPts : RLe(x[2], R(-3))                                                             \* funnel: neck
      /\ \E x \in GalPts : RLe(R(3), x[2])                                                              \* funnel: mouth
      /\ \A nm \in GalNameSet : \A s \in Singular(nm) : s \in GalPts                                    \* the kink is a lattice point

GalCase(s) ==
    LET x == GalX(s)  row == <<"Gallery:" \o s.name, "selfdef">>
    IN [kind |-> "gallery", name |-> s.name, x |-> x, smooth |-> GalSmooth(s.name, x), integer |-> (x[1][2] = 1 /\ x[2][2] = 1),
        outcome |-> XOutcome(row, FALSE), outcome_fd |-> XOutcome(row, TRUE), cfg |-> [i |-> s.i, j |-> s.j]]

\* ======================================================================================================================
\* 3. stacked joint of two independent parts
\* ======================================================================================================================
StackFirst  == {k \in FamConfigs("Gaussian") : Valid(k) /\ k.dim = 2 /\ k.a \in {2, 3} /\ k.g = 1 /\ k.x = 1}
StackSecond == UNION {{k \in FamConfigs(f) : Valid(k) /\ k.dim = 1 /\ k.o = 0 /\ k.a = 2 /\ k.g = 1 /\ k.x \in {1, 2}}
                       : f \in {"Cauchy", "InverseGamma", "Beta", "SmoothedLaplace"}}
StackCase(s) ==
    LET A == CaseOf(s.k1)  B == CaseOf(s.k2)
    IN [kind |-> "stack", parts |-> <<A, B>>, logd |-> SLAdd(A.logpdf.v, B.logpdf.v), grad |-> A.grad.v \o B.grad.v,
        value |-> XOutcome(<<"_StackedJointDistribution", "stacked">>, FALSE),
        fd |-> XOutcome(<<"_StackedJointDistribution", "stacked">>, TRUE)]
\* the parts are independent: the derivative of the sum with respect to the stacked vector is the concatenation; checked exactly
\* on the quadratic part (central difference of the Gaussian part with the other part held fixed)
StackSum ==
    c.fam = "Stack" =>
      LET A == CaseOf(c.k1)  B == CaseOf(c.k2)  S == StackCase(c)
          d == c.k1.dim  m == Pat(LLoc, d, c.k1.a)  cn == Canon("sqrtprec", SqrtPrecOf(d, c.k1.b, Pat(LLam, d, c.k1.g)))
          h == HVec(d)
      IN /\ A.inside /\ B.inside /\ ~A.grad.nan /\ ~B.grad.nan
         /\ Len(S.grad) = A.dim + B.dim
         /\ SLSub(SLAdd(GaussLogpdf(m, cn, VAdd(A.x, h)), B.logpdf.v), SLAdd(GaussLogpdf(m, cn, VSub(A.x, h)), B.logpdf.v))
              = SLConst(RMul(R(2), Dot(h, F([i \in 1..d |-> S.grad[i]]))))

\* ======================================================================================================================
GalInit ==
    c \in {[fam |-> "GalTable"]}
          \cup {[fam |-> "Gallery", name |-> nm, i |-> i, j |-> j] : nm \in GalNameSet, i \in GalRange, j \in GalRange}
          \cup {[fam |-> "Stack", k1 |-> k1, k2 |-> k2] : k1 \in StackFirst, k2 \in StackSecond}
GalNext == UNCHANGED c

GalTableChecks == c.fam = "GalTable" => ClassTable /\ RichardsonExact /\ RichardsonOrder /\ EstimateBounds
\* (the four conjuncts are also listed one by one in the cfg so that a refutation names the violated statement)
InvClassTable      == c.fam = "GalTable" => ClassTable
InvRichardsonExact == c.fam = "GalTable" => RichardsonExact
InvRichardsonOrder == c.fam = "GalTable" => RichardsonOrder
InvEstimateBounds  == c.fam = "GalTable" => EstimateBounds
StackNonEmpty      == c.fam = "GalTable" => StackFirst # {} /\ StackSecond # {}

GalEmit ==
    Emit => CASE c.fam = "GalTable" -> /\ PrintT("@@CASE " \o ToJson(ClassCase) \o " @@END")
                                       /\ PrintT("@@CASE " \o ToJson(TableauCase) \o " @@END")
              [] c.fam = "Gallery"  -> PrintT("@@CASE " \o ToJson(GalCase(c)) \o " @@END")
              [] c.fam = "Stack"    -> PrintT("@@CASE " \o ToJson(StackCase(c)) \o " @@END")
              [] OTHER -> TRUE
=============================================================================
