----------------------------- MODULE NutsAbort -----------------------------
(***************************************************************************)
(* A NUTS transition that ABORTS: the target raises at the k-th evaluation  *)
(* of the transition (a forward solve that fails, an interrupt) - property  *)
(* C08: "the cached log-density and gradient always belong to the current   *)
(* point".                                                                  *)
(*                                                                         *)
(* Module Nuts describes one complete transition; its variables cur / clp / *)
(* cg say which leaf the chain's point, the cached log-density and the      *)
(* cached gradient belong to, and CacheBelongs holds in every state of the  *)
(* transition.  What a USER can observe of a transition that does not       *)
(* complete is the triple STORED ON THE SAMPLER OBJECT at the moment the    *)
(* evaluation raises.  This module adds                                     *)
(*                                                                         *)
(*   st = [p, lp, g]  time indices of the orbit the stored point / stored   *)
(*        log-density / stored gradient belong to.  Intended design         *)
(*        (StoreLate = {}): the three attributes are written together when  *)
(*        the top level selects a candidate, st = <<cur, clp, cg>> in every *)
(*        state.  An attribute in StoreLate is written once, after the      *)
(*        doubling loop (action Finish), instead.                           *)
(*   Abort(ev)  enabled whenever a leaf is about to be built (a leapfrog    *)
(*        step = one evaluation of the log-density, then one of the         *)
(*        gradient): the evaluation ev in {"lp", "grad"} of that leaf       *)
(*        raises.  pc = "aborted"; nothing else changes - in particular the *)
(*        stored triple is whatever the transition has written so far.      *)
(*        TLC enumerates every leaf of every behaviour of the lattice of    *)
(*        NutsSeq (all phases of four momentum words, flat and non-flat     *)
(*        tables, step sizes 1 and 1/2, max_depth 0 and 1, two slice draws, *)
(*        all direction bits and decision classes), i.e. every k.           *)
(*                                                                         *)
(* Invariants                                                               *)
(*   AbortCoherent      after an abort the stored log-density and gradient  *)
(*                      belong to the stored point                          *)
(*   AbortPointDecided  the stored point is the start of the transition or  *)
(*                      the candidate selected so far (both are valid: a    *)
(*                      design that stores all three attributes after the   *)
(*                      loop - StoreLate = {p, lp, g}, cfg                  *)
(*                      NutsAbort.rollback.cfg - satisfies both invariants  *)
(*                      too); it has a finite log-density and lies in the   *)
(*                      slice                                               *)
(* Named deviations (TLC must refute AbortCoherent):                        *)
(*   StoreLate = {"g"}   the gradient is stored once after the loop         *)
(*   StoreLate = {"lp"}  the log-density is stored once after the loop      *)
(*   StoreLate = {"p"}   the point is stored once after the loop            *)
(*                                                                         *)
(* Continuation.  After the abort the object holds a coherent triple at the *)
(* leaf c = st.p.  By ShiftLemma (NutsSeq, checked by TLC on this lattice)  *)
(* the orbit seen from c on a flat table is the orbit ShiftId(orb, c) of    *)
(* the instance, so the NEXT transition of the same object is a behaviour   *)
(* of Nuts for <<ShiftId(orb, c), md>> translated by c (for c = 0: of the   *)
(* same orbit, flat or not).  Every abort state is emitted with c and the   *)
(* shifted orbit id; the behaviours themselves are emitted by part B of     *)
(* NutsSeq.                                                                 *)
(***************************************************************************)
EXTENDS NutsSeq

CONSTANTS StoreLate       \* subset of {"p", "lp", "g"}: attributes stored once after the doubling loop

VARIABLES st,             \* [p, lp, g]: leaves the STORED point / log-density / gradient belong to
          ab              \* [on |-> FALSE] or the record of the abort

ASSUME StoreLate \subseteq {"p", "lp", "g"}

\* all variables of Nuts but pc
NoPc == <<orb, ot, md, ed, logu, v, tm, tp, zm, zp, j, n, s, cur, clp, cg, acc, stack, ret, al, na,
          leaves, last, subs, draws, flagAt, w, ntree, kc>>

AInit == BInit /\ st = [p |-> 0, lp |-> 0, g |-> 0] /\ ab = [on |-> FALSE]

\* what the object holds after a step of the transition: an attribute in StoreLate is written by Finish only
Late(a) == a \in StoreLate /\ pc' # "done"
Stored == [p  |-> IF Late("p")  THEN st.p  ELSE cur',
           lp |-> IF Late("lp") THEN st.lp ELSE clp',
           g  |-> IF Late("g")  THEN st.g  ELSE cg']

\* the evaluation ev of the leaf that is about to be built raises
Abort(ev) ==
    /\ pc = "build" /\ ~HasRet /\ stack # <<>> /\ Top.k = "call" /\ ~ab.on
    /\ ev \in {"lp", "grad"}
    /\ ab' = [on |-> TRUE, nl |-> Len(leaves) + 1, t |-> Top.t + v, ev |-> ev, j |-> j]
    /\ pc' = "aborted"
    /\ UNCHANGED <<NoPc, so, st>>

ANext == \/ (BNext /\ st' = Stored /\ UNCHANGED ab)
         \/ \E ev \in {"lp", "grad"} : Abort(ev)

Aborted == kc.N = 0 /\ pc = "aborted"

AbortCoherent == Aborted => (st.lp = st.p /\ st.g = st.p)
AbortPointDecided == Aborted => /\ st.p \in {0, cur}
                                /\ IsFin(O.lp[st.p])
                                /\ InSliceDef(O, logu, st.p)
\* intended design only: the object holds the triple of Nuts in every state
StoredIsCurrent == (kc.N = 0 /\ StoreLate = {}) => st = [p |-> cur, lp |-> clp, g |-> cg]

AbortEmitted ==
    (Emit /\ Aborted) =>
        PrintT("@@CASE " \o ToJson([kind |-> "nutsabort", orb |-> orb, md |-> md, ed |-> ed, draws |-> draws,
                                    leaves |-> leaves, nl |-> ab.nl, t |-> ab.t, ev |-> ab.ev, j |-> ab.j,
                                    st |-> st, cur |-> cur, alt |-> IF cur = 0 THEN <<0>> ELSE <<0, cur>>,
                                    flat |-> Flat(orb), shifted |-> ShiftId(orb, st.p)]) \o " @@END")
=============================================================================
