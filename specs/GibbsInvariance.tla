-------------------------- MODULE GibbsInvariance --------------------------
(***************************************************************************)
(* Why the structural properties of Gibbs.tla are what invariance needs:   *)
(* on a tiny joint pi(a, b), a in 1..2, b in 1..NB, with positive integer   *)
(* weights, the sweep kernel "update a given the current b, then b given    *)
(* the NEW a" leaves pi invariant - for exact conditional draws and for a   *)
(* Metropolis block with the exact ratio (pi-invariant block kernel) - and  *)
(* the kernel that conditions the second block on the STALE value of the    *)
(* first (deviation StaleOthers) does not.  All arithmetic is exact         *)
(* (rationals of module Rat).                                               *)
(***************************************************************************)
EXTENDS Rat, FiniteSets, TLC

CONSTANTS NB, Weights, StaleOthers, BlockA     \* BlockA: "exact" | "mh"
VARIABLE w                                     \* [1..2 -> [1..NB -> Weights]]

A == 1..2
B == 1..NB
Init == w \in [A -> [B -> Weights]]
Next == UNCHANGED w

Tot      == RSumSeq([i \in 1..(2 * NB) |-> R(w[((i - 1) \div NB) + 1][((i - 1) % NB) + 1])])
Pi(a, b) == RDiv(R(w[a][b]), Tot)
\* exact conditionals
PAgB(a, b) == Q(w[a][b], w[1][b] + w[2][b])
PBgA(b, a) == RDiv(R(w[a][b]), RSumSeq([j \in 1..NB |-> R(w[a][j])]))
\* Metropolis block for a: propose the other value, accept with min(1, pi(a',b)/pi(a,b))
Other(a) == 3 - a
MHa(a2, a, b) == LET acc == RMin(One, Q(w[Other(a)][b], w[a][b]))
                 IN IF a2 = Other(a) THEN acc ELSE RSub(One, acc)
Ka(a2, a, b) == IF BlockA = "exact" THEN PAgB(a2, b) ELSE MHa(a2, a, b)
\* sweep kernel: a first, then b given the new a (or, deviation, given the stale a)
P(a, b, a2, b2) == RMul(Ka(a2, a, b), PBgA(b2, IF StaleOthers THEN a ELSE a2))

Stochastic == \A a \in A, b \in B :
                RSumSeq([i \in 1..(2 * NB) |-> P(a, b, ((i - 1) \div NB) + 1, ((i - 1) % NB) + 1)]) = One
Invariant  == \A a2 \in A, b2 \in B :
                RSumSeq([i \in 1..(2 * NB) |->
                   RMul(Pi(((i - 1) \div NB) + 1, ((i - 1) % NB) + 1),
                        P(((i - 1) \div NB) + 1, ((i - 1) % NB) + 1, a2, b2))]) = Pi(a2, b2)
=============================================================================
