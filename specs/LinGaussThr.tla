----------------------------- MODULE LinGaussThr -----------------------------
(***************************************************************************)
(* Linear RTO / UGLA on BOTH SIDES of the dense / sparse switch of          *)
(* cuqi.distribution.Gaussian (property C06, round 7).                      *)
(*                                                                         *)
(* A Gaussian whose dimension exceeds cuqi.config.MIN_DIM_SPARSE (public,   *)
(* default 75) stores its matrices in sparse containers and - for a dense   *)
(* FULL covariance / precision / sqrt-covariance - derives its square-root  *)
(* precision by ANOTHER route (eigen-decomposition instead of Cholesky),    *)
(* i.e. it holds ANOTHER square root of the same precision.  Linear RTO     *)
(* whitens with whatever factor the Gaussian holds.  C06 speaks about "the  *)
(* posterior": the draw must not depend on the side of the switch.          *)
(* Every configuration of LinGauss (parts rto, ugla) has dimension <= 3:    *)
(* only the dense side was ever taken.                                      *)
(*                                                                         *)
(* This module EXTENDS LinGauss (not edited) and makes the threshold a      *)
(* DIMENSION OF THE CONFIGURATION:                                          *)
(*    t.thr   value of MIN_DIM_SPARSE while the problem is built and used   *)
(*            (75 = the default, or lowered to 0 / 1 / 2)                   *)
(*    t.rep   the problem is the base configuration REPLICATED rep times    *)
(*            (A (x) I_rep block diagonal, data / means tiled, Gaussians     *)
(*            block-diagonally repeated): with rep = 26, 38 the dimensions   *)
(*            cross the REAL threshold 75                                   *)
(*    t.lay   data layout / type of every array handed to the library (same *)
(*            numbers: int, float32, column-major, strided view, read-only) *)
(* A Gaussian of dimension dim is on the sparse side iff dim > thr.         *)
(* s = the stacked whitened problem as the code forms it with the factor    *)
(* each Gaussian HOLDS on its side:                                        *)
(*    dense side, or diagonal kinds, or a full sqrtprec handed in:  L       *)
(*    sparse side, full cov / prec / sqrtcov:  Alt(L) = Q L with Q a signed *)
(*        permutation (orthogonal) - stands for "some other square root";   *)
(*        the statements below hold for EVERY orthogonal Q                  *)
(* Invariants                                                              *)
(*   ThrWhitening   M^T M = Lambda and M^T b~ = rhs of the threshold-free    *)
(*                  reference d (LinGauss.RtoDerived) on every side          *)
(*   ThrDrawIsPosteriorDraw / ThrCovariance  every transition (two          *)
(*                  successive ones, from every start) is mu_post +          *)
(*                  Lambda^-1 M^T e_k and (Lambda^-1 M^T)(..)^T = Lambda^-1  *)
(*   ThrSideTaken   every emitted choice has a Gaussian on the sparse side   *)
(*   ThrReplication the law the replayer uses for rep > 1, checked with      *)
(*                  rep = 2:  Lambda_big = I (x) Lambda, rhs_big = tile(rhs), *)
(*                  (I (x) adj) Lambda_big = det I  =>  mu_big = tile(mu),    *)
(*                  cov_big = I (x) Lambda^-1  (every block has the same      *)
(*                  spectrum: CG needs no more steps than for one block)     *)
(*   ThrUglaWhitening  (part ugla) the noise factor held on the sparse side  *)
(*                  squares to the noise precision the local Gaussian uses   *)
(* Named deviations (TLC must refute ThrWhitening / ThrUglaWhitening):       *)
(*   AboveFactorNotTransposed  sparse side, full matrix: the factor is       *)
(*        stored transposed (eigenvectors as rows / columns mixed up)        *)
(*   AboveDiagNotRooted        sparse side, diagonal kinds: the diagonal of   *)
(*        the precision is stored where its square root belongs              *)
(***************************************************************************)
EXTENDS LinGauss

CONSTANTS ThrDev      \* "none" | "AboveFactorNotTransposed" | "AboveDiagNotRooted"

VARIABLES t,          \* [thr |-> value of MIN_DIM_SPARSE, rep |-> number of replications, lay |-> data layout / type of the input arrays]
          s           \* the stacked problem with the factors held on each Gaussian's side (rto) / the noise factor (ugla)

tvars == <<c, d, x, k, t, s>>

ASSUME Part \in {"rto", "ugla"} /\ Dev = "none" /\ ThrDev \in {"none", "AboveFactorNotTransposed", "AboveDiagNotRooted"}

DefaultThr == 75
Above(dim, thr) == dim > thr

\* another square root of the same precision: rows reversed with alternating sign (Q orthogonal: (Q L)^T (Q L) = L^T L)
Alt(L) == LET dd == Len(L) IN F([i \in 1..dd |-> IVSc(IF i % 2 = 0 THEN -1 ELSE 1, L[dd + 1 - i])])
\* the factor a Gaussian of the given kind / input form HOLDS on its side
SideL(kind, form, L, above) ==
    IF ~above THEN L
    ELSE IF kind = "full"
         THEN (IF form = "sqrtprec" THEN L
               ELSE IF ThrDev = "AboveFactorNotTransposed" THEN IT(Alt(L)) ELSE Alt(L))
         ELSE (IF ThrDev = "AboveDiagNotRooted" THEN IMM(L, L) ELSE L)

IsGaussPrior(r) == PForm(r.j).kind \notin {"gmrf", "joint"}
LikForm(r, q)   == GForm(IF q = 1 THEN r.i1 ELSE r.i2)
LikDim(r, q)    == IF q = 1 THEN r.m1 ELSE r.m2

\* which Gaussians of configuration r lie on the sparse side under choice tt
SidesOf(r, tt) == [noise |-> [q \in 1..r.nl |-> Above(LikDim(r, q) * tt.rep, tt.thr)],
                   prior |-> IsGaussPrior(r) /\ Above(r.n * tt.rep, tt.thr)]
SomeAbove(r, tt) == LET sd == SidesOf(r, tt) IN sd.prior \/ \E q \in 1..r.nl : sd.noise[q]

ThrStack(dd, r, tt) ==
    LET sd    == SidesOf(r, tt)
        pf    == PForm(r.j)
        likL  == [q \in 1..Len(dd.liks) |-> SideL(LikForm(r, q).kind, LikForm(r, q).form, dd.liks[q].L, sd.noise[q])]
        pblL  == [q \in 1..Len(dd.pbl) |-> IF IsGaussPrior(r) THEN SideL(pf.kind, pf.form, dd.pbl[q].L, sd.prior) ELSE dd.pbl[q].L]
        M     == Concat([q \in 1..Len(dd.liks) |-> IMM(likL[q], dd.liks[q].A)]) \o Concat(pblL)
        Madj  == IT(M)
        bt    == Concat([q \in 1..Len(dd.liks) |-> IMV(likL[q], dd.liks[q].y)]) \o
                 Concat([q \in 1..Len(dd.pbl) |-> IMV(pblL[q], dd.pbl[q].mu)])
        MtM   == IMM(Madj, M)
    IN [n |-> dd.n, N |-> Len(M), M |-> M, Madj |-> Madj, bt |-> bt, MtM |-> MtM, detN |-> IDet(MtM), adjN |-> IAdj(MtM), sides |-> sd]

\* ---- choices -------------------------------------------------------------------------------------------------------
\* lowered thresholds: every value that puts at least one Gaussian on the sparse side (quick: the value that puts ALL of
\* them there and the one(s) that split noise and prior); real threshold: replications that cross 75
Reps == {26, 38}
RepForms == {1, 6, 11, 13, 14, 15, 16}       \* quick: the four full forms and one form of each diagonal kind
LowThr(r) == IF Thorough /\ (r.i1 + r.j) % 3 = 0 THEN {0, 1, 2}
             ELSE IF r.nl = 2 THEN {0, 1} ELSE IF r.m1 = 1 THEN {0, 1} ELSE {0, 2}
RepSel(r) == /\ r.nl = 1 /\ IsGaussPrior(r) /\ r.m1 # r.n /\ r.m1 > 1 /\ r.av = 1
             /\ ((Thorough /\ (r.i1 + r.j) % 8 = 0) \/ (r.m1 = 3 /\ r.j = 13 /\ r.i1 \in RepForms) \/ (r.m1 = 2 /\ r.i1 = 16 /\ r.j \in RepForms))
RepsOf(r) == IF ~RepSel(r) THEN {}
             ELSE IF Thorough THEN Reps
             ELSE IF r.i1 \in {13, 16} /\ r.j \in {13, 16} THEN Reps ELSE {26}
\* data layout / type of the arrays handed to the library (matrix, data, means, parameters of the Gaussians): the SAME numbers as
\* C-contiguous float64 (default), integer dtype, float32 (not the parameters of a Gaussian), column-major, non-contiguous view,
\* read-only.  No expectation depends on it.  quick: one layout per (configuration, threshold), all layouts over the configurations.
Layouts == <<"f64c", "int", "f32", "fortran", "strided", "readonly">>
LayAt(q) == Layouts[(q % 6) + 1]
LaysOf(r, v) == {LayAt(r.i1 + r.j + r.m1 + v + (IF Thorough THEN r.av ELSE 0))}
LayOnly(r) == IF Thorough THEN {Layouts[((r.i1 + r.j + r.m1 + r.av) % 5) + 2]}
              ELSE IF (r.i1 + r.j) % 2 = 0 THEN {Layouts[((r.i1 + (r.j \div 2) + r.m1) % 5) + 2]} ELSE {}
ThrChoices(r) == {tt \in {[thr |-> v, rep |-> 1, lay |-> l] : v \in LowThr(r), l \in {Layouts[q] : q \in 1..6}} : tt.lay \in LaysOf(r, tt.thr) /\ SomeAbove(r, tt)}
                 \cup {tt \in {[thr |-> DefaultThr, rep |-> rp, lay |-> LayAt(r.i1 + r.j)] : rp \in RepsOf(r)} : SomeAbove(r, tt)}
                 \cup {[thr |-> DefaultThr, rep |-> 1, lay |-> l] : l \in LayOnly(r)}

ThrUglaSel(r) == Thorough \/ r.m = 3 \/ (r.i1 + r.u) % 4 = 0
ThrUglaChoices(r) == {tt \in {[thr |-> v, rep |-> 1, lay |-> "f64c"] : v \in (IF r.m = 1 THEN {0} ELSE IF Thorough /\ r.m = 3 THEN {1, 2} ELSE {1})} : Above(r.m, tt.thr)}
ThrUglaL(r, dd, tt) == SideL(GForm(r.i1).kind, GForm(r.i1).form, dd.L1, Above(r.m, tt.thr))

\* ---- state machine -------------------------------------------------------------------------------------------------
ThrInit == /\ c \in (IF Part = "rto" THEN RtoConfigs ELSE {r \in UglaConfigs : SelUgla(r) /\ ThrUglaSel(r)})
           /\ d = Derived(c)
           /\ k = -1
           /\ IF Part = "rto"
              THEN /\ t \in ThrChoices(c)
                   /\ s = ThrStack(d, c, t)
                   /\ x \in {VR(IZeroV(c.n)), VR([i \in 1..c.n |-> (3 * i) - 5])}
              ELSE /\ t \in ThrUglaChoices(c)
                   /\ s = [L |-> ThrUglaL(c, d, t)]
                   /\ x = VR(d.xk)

ThrRtoDraw == /\ Part = "rto" /\ TLCGet("level") <= 2
              /\ \E q \in 0..s.N : /\ x' = RtoStep(s, x, q) /\ k' = q
              /\ UNCHANGED <<c, d, t, s>>
ThrNext == ThrRtoDraw \/ (UglaDraw /\ UNCHANGED <<t, s>>)
ThrSpec == ThrInit /\ [][ThrNext]_tvars

\* ---- invariants ----------------------------------------------------------------------------------------------------
ThrWhitening == Part = "rto" =>
    /\ s.MtM = d.Lam                                    \* the factor held on either side squares to the SAME precision
    /\ IMV(s.Madj, s.bt) = d.rhs
    /\ IPosDef(d.Lam) /\ IMM(d.adj, d.Lam) = IMSc(d.det, IId(c.n))
    /\ d.MtM = d.Lam /\ IMV(d.Madj, d.bt) = d.rhs       \* (the dense-side problem of LinGauss, for reference)
ThrDrawIsPosteriorDraw == Part = "rto" /\ k >= 0 =>
    x = (IF k = 0 THEN d.mu ELSE VAddS(d.mu, QV(ICol(IMM(d.adj, IT(s.M)), k), d.det)))
ThrCovariance == Part = "rto" =>
    LET TN == IMM(d.adj, IT(s.M)) IN IMM(TN, IT(TN)) = IMSc(d.det, d.adj)
ThrSideTaken == IF Part = "rto" THEN (SomeAbove(c, t) \/ t.lay # "f64c") /\ (t.rep > 1 => t.thr = DefaultThr) /\ (\E q \in 1..6 : t.lay = Layouts[q])
                ELSE Above(c.m, t.thr)

\* replication law, checked with two copies
Kron2(M) == LET a == Len(M) b == Len(M[1])
            IN F([i \in 1..(2 * a) |-> [j \in 1..(2 * b) |-> IF (i - 1) \div a = (j - 1) \div b THEN M[((i - 1) % a) + 1][((j - 1) % b) + 1] ELSE 0]])
ThrReplication == (Part = "rto" /\ t.rep > 1) =>
    LET liks == d.liks  pbl == d.pbl  n2 == 2 * c.n
        LamB == SumMats([q \in 1..Len(liks) |-> LET LA == IMM(Kron2(liks[q].L), Kron2(liks[q].A)) IN IMM(IT(LA), LA)] \o
                        [q \in 1..Len(pbl) |-> IMM(IT(Kron2(pbl[q].L)), Kron2(pbl[q].L))], IZeroM(n2, n2))
        rhsB == SumVecs([q \in 1..Len(liks) |-> LET LA == IMM(Kron2(liks[q].L), Kron2(liks[q].A))
                                                IN IMV(IT(LA), IMV(Kron2(liks[q].L), liks[q].y \o liks[q].y))] \o
                        [q \in 1..Len(pbl) |-> IMV(IMM(IT(Kron2(pbl[q].L)), Kron2(pbl[q].L)), pbl[q].mu \o pbl[q].mu)], IZeroV(n2))
    IN /\ LamB = Kron2(d.Lam)
       /\ rhsB = d.rhs \o d.rhs
       /\ IMM(Kron2(d.adj), LamB) = IMSc(d.det, IId(n2))
       /\ IMV(Kron2(d.adj), rhsB) = IMV(d.adj, d.rhs) \o IMV(d.adj, d.rhs)

ThrUglaWhitening == Part = "ugla" =>
    /\ IMM(IT(s.L), s.L) = IMM(IT(d.L1), d.L1)         \* the precision UglaDerived builds the local Gaussian from
    /\ UglaStepIsLocalGaussianDraw

\* ---- emission: one case per (configuration, choice), at the first initial state ---------------------------------------
ThrCase == IF Part = "rto"
           THEN [kind |-> "rtothr", thr |-> t.thr, rep |-> t.rep, lay |-> t.lay, sides |-> s.sides, base |-> RtoCase]
           ELSE [kind |-> "uglathr", thr |-> t.thr, rep |-> t.rep, base |-> UglaCase]
ThrEmit == (Emit /\ k = -1 /\ (Part = "rto" => x = VR(IZeroV(c.n)))) => PrintT("@@CASE " \o ToJson(ThrCase) \o " @@END")
=============================================================================
