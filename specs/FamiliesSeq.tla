----------------------------- MODULE FamiliesSeq -----------------------------
(***************************************************************************)
(* Sequences of public operations on ONE likelihood / posterior /          *)
(* multiple-likelihood posterior object (property C03; the sequences on    *)
(* ONE distribution object are the part `Reassign` of module Families).    *)
(*                                                                         *)
(* The gradient of an object is the derivative of the log-density the      *)
(* object has NOW.  Whatever an object derives from its inputs (whitened   *)
(* data, precision times data, an "is the geometry the identity" flag, a   *)
(* Jacobian ...) may be kept, but must never outlive the inputs it was     *)
(* derived from.                                                           *)
(*                                                                         *)
(* Abstract state of the one object:                                       *)
(*   ver   which VERSION (1 or 2) each input currently has:                *)
(*           noise  parameter of the data distribution  (public setter of  *)
(*                  the Gaussian input form: lik.distribution.cov = ...)   *)
(*           data   observed data                (lik.data = ...)          *)
(*           pmean  mean of the prior            (post.prior.mean = ...)   *)
(*           geom   domain geometry of the model (model.domain_geometry =  *)
(*                  ...): 1 = identity (F(p) = A p), 2 = a geometry with   *)
(*                  par2fun(p) = p.p supplying its own derivative          *)
(*                  (F(p) = A (p.p): model kind `geomgrad` of Families)    *)
(*   fd    finite-difference flags (enable_FD / disable_FD of the          *)
(*         likelihood and of the posterior)                                *)
(*   cached  ghost: <<>> or <<ver from which derived quantities were last  *)
(*         computed>>                                                      *)
(* Actions: SeqEvaluate (log-density / gradient evaluated: derived         *)
(* quantities computed from the current inputs), SeqAssign(f) (input f     *)
(* gets its other version - both directions, so "assign and assign back"   *)
(* is a behaviour; everything derived is dropped), SeqToggle(w) (FD flag). *)
(*                                                                         *)
(* Invariants                                                              *)
(*   SeqIsFresh    in every reachable state the object answers like a      *)
(*                 freshly built object with the current versions          *)
(*                 (deviation DevStaleAfterAssign: an assignment keeps     *)
(*                 what was derived before - TLC must refute this)         *)
(*   SeqReference  the all-1 state is the configuration LikCase of the     *)
(*                 lattice of module Families (same numbers)               *)
(*   SeqQuad       linear model kinds: the central difference of the       *)
(*                 state's log-likelihood / log-posterior equals its       *)
(*                 gradient, exactly, in EVERY state (mixed versions)      *)
(*   SeqDiffers    every assignment changes the gradient the object must   *)
(*                 return, from every version vector (a stale value is     *)
(*                 visible); base configurations without this property are *)
(*                 not configurations (SeqVisible)                         *)
(*   SeqOutcome    with a finite-difference flag on the outcome is ValueFD *)
(*                 (the derivative, at finite-difference accuracy),        *)
(*                 otherwise Value - never another vector                  *)
(* SeqEmit prints, per base configuration and version vector, the exact    *)
(* expected log-densities and gradients; the replay walks through the      *)
(* state graph on one real object per base configuration (every edge,      *)
(* plus seeded walks) and compares after every operation.                  *)
(***************************************************************************)
EXTENDS Families

CONSTANT DevStaleAfterAssign       \* named deviation; FALSE in the deciding configurations

SeqFields == <<"noise", "data", "pmean", "geom">>
SeqFieldSet == {SeqFields[i] : i \in 1..Len(SeqFields)}
SeqMKinds == <<"matrix", "funadj", "jacobian", "gradient">>

\* ---- the two versions of every input ------------------------------------------------------------------------------
SeqLam(m, v)   == IF v = 1 THEN Pat(LLam, m, 2) ELSE F([i \in 1..m |-> IF i % 2 = 1 THEN Half ELSE One])   \* v1: 2, 2, ..   v2: 1/2, 1, 1/2
SeqY(m, v)     == IF v = 1 THEN Pat(LInt, m, IF m = 1 THEN 2 ELSE Len(LInt) + 1) ELSE Pat(LInt, m, 3)
SeqMean(n, v)  == IF v = 1 THEN Pat(LLoc, n, IF n = 1 THEN 2 ELSE Len(LLoc) + 1) ELSE Pat(LLoc, n, 3)
SeqMk(b, v)    == IF b.mk = "matrix" /\ v = 2 THEN "geomgrad" ELSE b.mk
SeqHasField(b, f) == f # "geom" \/ b.mk = "matrix"

SeqPrior(n, pk, mean, x) ==      \* pk = 1: Gaussian(mean, cov = 4);  2: GMRF(mean, 1, zero, order 1)   (as PriorParts of Families)
    IF pk = 1
    THEN LET cn == <<MDiag([i \in 1..n |-> Q(1, 4)]), SLScale(R(n), SLLog(R(4))), n>>
         IN [kind |-> "Gaussian", mean |-> mean, logpdf |-> GaussLogpdf(mean, cn, x), grad |-> GaussGrad(mean, cn, x)]
    ELSE LET Di == MrfD(1, n, "zero", 1, 1)  P == MR(DO!IMM(DO!IT(Di), Di))  pdet == PDet(P, n)
         IN [kind |-> "GMRF", mean |-> mean, logpdf |-> GmrfLogpdf(P, n, pdet, One, mean, x), grad |-> GmrfGrad(P, One, mean, x)]

\* base configurations: size / matrix, model kind, prior kind, evaluation point
SeqBases ==
    { [n |-> na[1], a |-> na[2], mk |-> mk, pk |-> pk, x |-> x] :
         na \in {<<n, a>> \in Dims \X (1..2) : a <= NLA(n)},
         mk \in {SeqMKinds[i] : i \in 1..Len(SeqMKinds)},
         pk \in 1..2,
         x \in {1, 2, 3, Len(LInt) + 1} }
SeqSelBase(b) ==
    /\ (b.n = 1 => b.pk = 1 /\ b.x \in (IF Thorough THEN {1, 2, 3} ELSE {3}))          \* (no Markov random field on one node)
    /\ (b.n > 1 => b.x \in (IF Thorough THEN {2, 3, Len(LInt) + 1} ELSE {Len(LInt) + 1}))
    /\ (Thorough \/ b.mk \in {"matrix", "jacobian"} \/ (b.n = 2 /\ b.a = 2))

SeqVer1 == [f \in SeqFieldSet |-> 1]

\* everything the object must answer in the state (b, ver)
SeqParts(b, ver, x) ==
    LET n == b.n  A == MR(LA(n, b.a))  B == MR(LB(LA(n, b.a)))  m == Len(A)
        mk == SeqMk(b, ver["geom"])
        lam == SeqLam(m, ver["noise"])
        y == SeqY(m, ver["data"])
        pr == SeqPrior(n, b.pk, SeqMean(n, ver["pmean"]), x)
        ll == LogLik(mk, A, B, lam, y, x)
        gl == GradLik(mk, A, B, lam, y, x)
        y2 == Pat(LInt, m, 2)
        lam2 == [i \in 1..m |-> One]
    IN [mk |-> mk, lam |-> lam, lamscal |-> IsConstV(lam), y |-> y, pmean |-> pr.mean,
        loglik |-> ll, gradlik |-> gl, logprior |-> pr.logpdf, gradprior |-> pr.grad,
        logpost |-> SLAdd(ll, pr.logpdf), gradpost |-> VAdd(gl, pr.grad),
        y2 |-> y2, loglik2 |-> LogLik("jacobian", A, B, lam2, y2, x), gradlik2 |-> GradLik("jacobian", A, B, lam2, y2, x)]
SeqX(b) == Pat(LInt, b.n, b.x)
SeqAns(b, ver) == LET p == SeqParts(b, ver, SeqX(b))
                  IN <<p.loglik, p.gradlik, p.logpost, p.gradpost>>

\* every assignment is VISIBLE in the gradient the object must return, from every version vector (a stale value cannot hide);
\* base configurations without this property (a zero residual component, a vanishing Jacobian ...) are not configurations
SeqVersOf(b) == { v \in [SeqFieldSet -> {1, 2}] : b.mk # "matrix" => v["geom"] = 1 }
SeqVisible(b) ==
    \A ver \in SeqVersOf(b) : \A f \in SeqFieldSet : SeqHasField(b, f) =>
      LET other == [ver EXCEPT ![f] = 3 - @]
          p == SeqParts(b, ver, SeqX(b))  q == SeqParts(b, other, SeqX(b))
      IN /\ p.gradpost # q.gradpost
         /\ (f # "pmean" => p.gradlik # q.gradlik)
         /\ (f = "pmean" => p.gradlik = q.gradlik /\ p.gradprior # q.gradprior)
SeqConfigs == {q \in SeqBases : SeqSelBase(q) /\ SeqVisible(q)}

\* ---- state machine ------------------------------------------------------------------------------------------------
SeqInit == c \in { [part |-> "seqlik", b |-> b, ver |-> SeqVer1, fd |-> [lik |-> FALSE, post |-> FALSE], cached |-> <<>>] :
                     b \in SeqConfigs }
SeqEvaluate == /\ c.cached = <<>>
               /\ c' = [c EXCEPT !.cached = <<c.ver>>]
SeqAssign(f) == /\ SeqHasField(c.b, f)
                /\ c' = [c EXCEPT !.ver = [c.ver EXCEPT ![f] = 3 - @],
                                  !.cached = IF DevStaleAfterAssign THEN @ ELSE <<>>]
SeqToggle(w) == c' = [c EXCEPT !.fd = [c.fd EXCEPT ![w] = ~@]]
SeqNext == SeqEvaluate \/ (\E f \in SeqFieldSet : SeqAssign(f)) \/ (\E w \in {"lik", "post"} : SeqToggle(w))

\* ---- invariants ---------------------------------------------------------------------------------------------------
SeqIsFresh == (c.cached # <<>> /\ c.cached[1] # c.ver) => SeqAns(c.b, c.cached[1]) = SeqAns(c.b, c.ver)

SeqMkIdx(mk) == CHOOSE i \in 1..Len(MKinds) : MKinds[i] = mk
\* the invariants below talk about (b, ver) only: evaluated once per version vector (flags off, nothing cached)
SeqPlain == c.cached = <<>> /\ ~c.fd.lik /\ ~c.fd.post
SeqReference ==
    (SeqPlain /\ c.ver = SeqVer1) =>
      LET b == c.b
          k == Cfg("Lik", b.n, b.a, 2, b.pk, b.x, SeqMkIdx(b.mk))
          L == LikCase(k)
          p == SeqParts(b, c.ver, SeqX(b))
      IN /\ L.loglik = p.loglik /\ L.gradlik = p.gradlik /\ L.logpost = p.logpost /\ L.gradpost = p.gradpost
         /\ L.loglik2 = p.loglik2 /\ L.gradlik2 = p.gradlik2 /\ L.x = SeqX(b) /\ L.logy = p.y /\ L.lam = p.lam

SeqQuad ==
    (SeqPlain /\ SeqMk(c.b, c.ver["geom"]) \in {"matrix", "funadj"}) =>
      LET b == c.b  x == SeqX(b)  hh == HVec(b.n)
          lo == SeqParts(b, c.ver, VSub(x, hh))  hi == SeqParts(b, c.ver, VAdd(x, hh))  at == SeqParts(b, c.ver, x)
      IN /\ SLSub(hi.loglik, lo.loglik) = SLConst(RMul(R(2), Dot(hh, at.gradlik)))
         /\ SLSub(hi.logpost, lo.logpost) = SLConst(RMul(R(2), Dot(hh, at.gradpost)))

\* ... stated again per reachable state (that enough configurations remain - every model kind x prior kind, every dimension -
\* is checked by the replayer on the emitted cases)
SeqDiffers ==
    SeqPlain => \A f \in SeqFieldSet : SeqHasField(c.b, f) =>
      LET other == [c.ver EXCEPT ![f] = 3 - @]
          p == SeqParts(c.b, c.ver, SeqX(c.b))  q == SeqParts(c.b, other, SeqX(c.b))
      IN /\ p.gradpost # q.gradpost
         /\ (f # "pmean" => p.gradlik # q.gradlik)
         /\ (f = "pmean" => p.gradlik = q.gradlik /\ p.gradprior # q.gradprior)

\* outcome of gradient() of the likelihood / of the posterior in the state: the FD flag of the likelihood lives on the data
\* distribution, so the posterior's analytic sum inherits it
SeqOutcomeOf(fd, who) == IF (who = "lik" /\ fd.lik) \/ (who = "post" /\ (fd.post \/ fd.lik)) THEN "ValueFD" ELSE "Value"
SeqOutcome == \A who \in {"lik", "post"} :
                 /\ SeqOutcomeOf(c.fd, who) \in {"Value", "ValueFD"}
                 /\ (SeqOutcomeOf(c.fd, who) = "Value" <=> ~(c.fd.lik \/ (who = "post" /\ c.fd.post)))

SeqCase ==
    LET b == c.b  p == SeqParts(b, c.ver, SeqX(b))
    IN [kind |-> "seqlik", fam |-> "Lik", dim |-> b.n, base |-> b, ver |-> c.ver,
        A |-> LA(b.n, b.a), B |-> LB(LA(b.n, b.a)), mk0 |-> b.mk, mk |-> p.mk,
        lam |-> p.lam, lamscal |-> p.lamscal, logy |-> p.y, x |-> SeqX(b),
        prior |-> [kind |-> (IF b.pk = 1 THEN "Gaussian" ELSE "GMRF"), mean |-> p.pmean],
        loglik |-> p.loglik, gradlik |-> p.gradlik, logprior |-> p.logprior, gradprior |-> p.gradprior,
        logpost |-> p.logpost, gradpost |-> p.gradpost,
        y2 |-> p.y2, loglik2 |-> p.loglik2, gradlik2 |-> p.gradlik2,
        fields |-> [i \in 1..Len(SeqFields) |-> [name |-> SeqFields[i], ok |-> SeqHasField(b, SeqFields[i])]],
        outcomes |-> [off |-> [lik |-> SeqOutcomeOf([lik |-> FALSE, post |-> FALSE], "lik"), post |-> SeqOutcomeOf([lik |-> FALSE, post |-> FALSE], "post")],
                      likfd |-> [lik |-> SeqOutcomeOf([lik |-> TRUE, post |-> FALSE], "lik"), post |-> SeqOutcomeOf([lik |-> TRUE, post |-> FALSE], "post")],
                      postfd |-> [lik |-> SeqOutcomeOf([lik |-> FALSE, post |-> TRUE], "lik"), post |-> SeqOutcomeOf([lik |-> FALSE, post |-> TRUE], "post")]]]
SeqEmit == (Emit /\ c.cached = <<>> /\ ~c.fd.lik /\ ~c.fd.post) => PrintT("@@CASE " \o ToJson(SeqCase) \o " @@END")

\* ======================================================================================================================
\* Part `Siblings` (round 5): TWO conditioned copies of ONE conditional object, alive at the same time
\* ======================================================================================================================
\* A conditional distribution O (some parameters are callables of conditioning variables) is conditioned twice,
\*       A = O(values of the first configuration),   B = O(values of the second configuration),
\* and both results are kept.  Conditioning makes a (shallow) copy, so whatever the copies derive from their parameters
\* (scaled operators, factorisations, normalising constants ...) must belong to the copy that derived it: evaluating A, B, A
\* again, in any interleaving and interleaved with uses of the unconditioned original O, each answer is that of the
\* evaluated object's OWN configuration.  The pair of configurations is a pair of the part `Reassign` of module Families
\* (start configuration, configuration after the units of a prefix of an assignment order were replaced - the units that are
\* callables of O); the exact answers of both are the cases `from` / `trail[n].expect` emitted there.  This part supplies the
\* BEHAVIOURS: every interleaving of Condition(A), Condition(B), at most MaxSibEvals evaluations and at most one use of the
\* original.  Abstract state:
\*     live     the conditioned copies made so far
\*     der      per copy: the configuration ("A" | "B") its derived quantities were computed from, or "none"
\*     shared   (deviation only) ONE slot for derived quantities that all copies of O see
\*     last     <<>> or <<evaluated copy, configuration the answer was computed from>>
\*     hist     the operations so far (emitted)
\* Invariant SibOwnAnswer: the answer of a copy is computed from its own configuration.  Named deviation DevSharedDerived
\* (FamiliesSeq.siblings_shared.deviation.cfg): the copies share the slot - the first evaluation after the last Condition fills
\* it, later evaluations of either copy use it; TLC must refute SibOwnAnswer (Condition A, Condition B, Evaluate A, Evaluate B).
CONSTANTS DevSharedDerived,        \* named deviation; FALSE in the deciding configurations
          MaxSibEvals              \* evaluations per behaviour

SibObjs == {"A", "B"}
SibInit == c = [part |-> "sib", live |-> {}, der |-> [w \in SibObjs |-> "none"], shared |-> "none", last |-> <<>>,
                hist |-> <<>>, nev |-> 0, npr |-> 0]
SibCondition(w) ==
    /\ w \notin c.live
    /\ c' = [c EXCEPT !.live = @ \cup {w}, !.der[w] = "none", !.last = <<>>,
                      !.shared = "none",          \* (deviation: the setters of the new copy empty the slot they share)
                      !.hist = Append(@, [op |-> "condition", who |-> w])]
SibEvaluate(w) ==
    /\ w \in c.live
    /\ c.nev < MaxSibEvals
    /\ LET used == IF DevSharedDerived /\ c.shared # "none" THEN c.shared ELSE w
       IN c' = [c EXCEPT !.der[w] = used, !.last = <<w, used>>, !.nev = @ + 1,
                         !.shared = IF DevSharedDerived THEN used ELSE @,
                         !.hist = Append(@, [op |-> "evaluate", who |-> w])]
SibOriginal ==                       \* the unconditioned original is used (evaluation attempted / conditioning variables listed)
    /\ c.npr < 1
    /\ c' = [c EXCEPT !.npr = @ + 1, !.last = <<>>, !.hist = Append(@, [op |-> "original", who |-> "O"])]
SibNext == (\E w \in SibObjs : SibCondition(w) \/ SibEvaluate(w)) \/ SibOriginal

SibOwnAnswer == c.last # <<>> => c.last[2] = c.last[1]
SibDerivedOwn == \A w \in SibObjs : c.der[w] \in {"none", w}
SibTerminal == c.live = SibObjs /\ c.nev = MaxSibEvals
SibEmit == (Emit /\ SibTerminal) => PrintT("@@CASE " \o ToJson([kind |-> "sibwalk", ops |-> c.hist]) \o " @@END")

\* ======================================================================================================================
\* Part `Points` (round 5): the evaluation point of a ONE-dimensional density in every admissible container
\* ======================================================================================================================
\* The gradient of a density of dimension 1 is one number per evaluation point, whatever object carries the point: a python
\* float, a numpy scalar, a 0-d array, a 1-element array, a 1-element list, a CUQIarray (PtKinds).  For every container the
\* decision is that of the table GradOutcome (a container the implementation does not accept is REFUSED: observation) and a
\* returned value is THE derivative - analytic, or at finite-difference accuracy with enable_FD() - at points of magnitude
\* below AND above one (a step or a tolerance relative to |x| must not leak into the value).
\* Configurations: every family with dimension-1 instances over the WHOLE lattice of evaluation offsets (the quick lattice of
\* the main part uses the first two offsets only), likelihood / posterior / multiple-likelihood posterior of the one-parameter
\* models at PtLikX, and the posterior of a scalar hyper-parameter s ~ Gamma(a, b), y | s ~ Gaussian(0, s I) (no analytic
\* gradient anywhere: finite differences are the documented way).
PtKinds == <<"float", "npscalar", "zerod", "array1", "list1", "cuqiarray">>
PtFams  == {"Normal", "Gaussian", "Laplace", "SmoothedLaplace", "Cauchy", "Gamma", "InverseGamma", "Beta", "Lognormal",
            "Uniform", "ModifiedHalfNormal"}
PtNoLarge == {"Beta"}                \* support inside the unit interval: no point of magnitude above one
PtXLen(fam) == CASE fam \in {"Normal", "Laplace", "Gaussian"} -> Len(LOff)
                 [] fam = "SmoothedLaplace" -> Len(LSL1)
                 [] fam = "Cauchy" -> Len(LCauU)
                 [] fam \in {"Gamma", "InverseGamma"} -> Len(LPosX)
                 [] fam \in {"Beta", "Uniform"} -> Len(LUnit)
                 [] fam = "Lognormal" -> Len(LK)
                 [] OTHER -> 3
PtThree == {"SmoothedLaplace", "InverseGamma", "ModifiedHalfNormal", "Gaussian", "Lognormal"}     \* families with a third index
PtConfigs(fam) == { Cfg(fam, 1, a, b, g, x, 0) : a \in 1..2, b \in (IF fam \in {"Gaussian", "Lognormal"} THEN {1} ELSE 1..2),
                                                g \in (IF fam \in PtThree THEN 1..2 ELSE {1}), x \in 1..PtXLen(fam) }
PtMagOf(q) == IF RLt(RAbs(q), One) THEN "small" ELSE IF RLt(One, RAbs(q)) THEN "large" ELSE "one"
PtSmooth(cs) == IF "smooth" \in DOMAIN cs THEN cs.smooth ELSE TRUE
\* likelihoods / posteriors of the one-parameter models: points
PtLikX == <<Half, Q(3, 2), R(-2), Q(-1, 4)>>
PtLikBases == { b \in SeqBases : b.n = 1 /\ b.pk = 1 /\ b.x = 1 }
PtLikVers(b) == {SeqVer1} \cup (IF b.mk = "matrix" THEN {[SeqVer1 EXCEPT !["geom"] = 2]} ELSE {})
\* hyper-parameter posterior: s ~ Gamma(a, b),  y | s ~ Gaussian(0, s I_2),  data y = (1, -2)
PtHypS == <<Half, Q(3, 2), R(2), R(4), Q(1, 4)>>
PtHypY == <<R(1), R(-2)>>
PtHypLogpost(a, b, s) ==
    SLAdd(GammaLogpdf(<<R(a)>>, <<b>>, <<s>>),
          GaussLogpdf(VZero(2), <<MDiag(<<RInv(s), RInv(s)>>), SLScale(R(2), SLLog(s)), 2>>, PtHypY))
\* d/ds [ (a-1) log s - b s - (d/2) log s - |y|^2 / (2 s) ]
PtHypGrad(a, b, s) ==
    RAdd(RSub(RDiv(RSub(R(a), One), s), b), RAdd(RNeg(RDiv(One, s)), RDiv(Dot(PtHypY, PtHypY), RMul(R(2), RSq(s)))))
PtHypOutcome(fd) == IF fd THEN "ValueFD" ELSE "Refused"          \* Gamma has no analytic gradient

PtInit == c \in UNION { {[part |-> "pt", k |-> k] : k \in UNION {PtConfigs(f) : f \in Fams \cap PtFams}},
                        UNION {{[part |-> "ptlik", b |-> b, ver |-> v, xi |-> i] : v \in PtLikVers(b), i \in 1..Len(PtLikX)} : b \in PtLikBases},
                        {[part |-> "pthyp", a |-> a, bi |-> bi, si |-> i] : a \in 2..3, bi \in 1..2, i \in 1..Len(PtHypS)} }
PtNext == UNCHANGED c

\* both magnitudes exist for every family whose support admits them (evaluated once per family, at its first configuration)
PtMagnitudes ==
    (c.part = "pt" /\ c.k.a = 1 /\ c.k.b = 1 /\ c.k.g = 1 /\ c.k.x = 1) =>
      LET mags == {PtMagOf(CaseOf(k).x[1]) : k \in {q \in PtConfigs(c.k.fam) : CaseOf(q).inside}}
      IN "small" \in mags /\ (c.k.fam \notin PtNoLarge => "large" \in mags)
\* the decision does not depend on the container: one table row per (family, FD flag), listed for every container kind
PtOutcome == c.part = "pt" => \A fd \in BOOLEAN : GradOutcome(c.k.fam, FALSE, "identity", fd) \in Outcomes
\* hyper-parameter posterior: the hand-derived derivative is that of the spec's log-density, as the polynomial identity
\*   s^2 g(s) = (a - 1 - d/2) s - b s^2 + |y|^2 / 2     and the spec density differs between two points by exactly the log terms
PtHypIdentity ==
    c.part = "pthyp" =>
      LET s == PtHypS[c.si]  b == LRate[c.bi]
      IN RMul(RSq(s), PtHypGrad(c.a, b, s)) =
           RAdd(RSub(RMul(RSub(R(c.a), R(2)), s), RMul(b, RSq(s))), RDiv(Dot(PtHypY, PtHypY), R(2)))

PtEmit ==
    Emit =>
      PrintT("@@CASE " \o ToJson(
        CASE c.part = "pt" ->
               LET cs == CaseOf(c.k)
               IN [kind |-> "point", mag |-> PtMagOf(cs.x[1]), kinds |-> PtKinds,
                   outcome |-> [fd \in {"off", "on"} |-> GradOutcome(c.k.fam, FALSE, "identity", fd = "on")]] @@ cs
          [] c.part = "ptlik" ->
               LET b == c.b  x == <<PtLikX[c.xi]>>  p == SeqParts(b, c.ver, x)
               IN [kind |-> "ptlik", fam |-> "Lik", dim |-> 1, base |-> b, ver |-> c.ver, mag |-> PtMagOf(x[1]), kinds |-> PtKinds,
                   A |-> LA(b.n, b.a), B |-> LB(LA(b.n, b.a)), mk0 |-> b.mk, mk |-> p.mk,
                   lam |-> p.lam, lamscal |-> p.lamscal, logy |-> p.y, x |-> x,
                   prior |-> [kind |-> "Gaussian", mean |-> p.pmean],
                   loglik |-> p.loglik, gradlik |-> p.gradlik, logpost |-> p.logpost, gradpost |-> p.gradpost,
                   y2 |-> p.y2, loglik2 |-> p.loglik2, gradlik2 |-> p.gradlik2]
          [] OTHER ->
               LET s == PtHypS[c.si]  b == LRate[c.bi]
               IN [kind |-> "pthyp", fam |-> "HyperPosterior", dim |-> 1, shape |-> R(c.a), rate |-> b, y |-> PtHypY, x |-> <<s>>,
                   mag |-> PtMagOf(s), kinds |-> PtKinds, logpost |-> PtHypLogpost(c.a, b, s), grad |-> <<PtHypGrad(c.a, b, s)>>,
                   outcome |-> [fd \in {"off", "on"} |-> PtHypOutcome(fd = "on")]]) \o " @@END")
=============================================================================
