-------------------------------- MODULE PDE --------------------------------
(***************************************************************************)
(* cuqi.pde / cuqi.model.PDEModel (property C18) over exact rationals.     *)
(*                                                                         *)
(* kind "steady": Assemble(th) = <<A(th), f(th)>> with integer-affine       *)
(*    dependence A(th) = A0 + th1 A1 + th2 A2, f(th) = f0 + th1 f1 + th2 f2;*)
(*    Solve returns ANY u with A u = f (postcondition) - for the            *)
(*    non-singular systems of the instance the unique one - together with   *)
(*    the extra values of the linear solver (0, 1 or 2 of them);            *)
(*    Observe = restriction on the solution grid, or the parabola through   *)
(*    the three nodes evaluated on another grid, followed by the            *)
(*    observation map; Forward = Observe o Solve o Assemble; Jacobian of    *)
(*    Forward from the differentiated system A dU_k = f_k - A_k u.          *)
(*                                                                         *)
(* kind "time": state <<idx, u>> with the action Step:                      *)
(*    forward_euler :  u' = (I + dt A(t_idx)) u + dt f(t_idx)               *)
(*    backward_euler:  (I - dt A(t_idx+1)) u' = u + dt f(t_idx+1)           *)
(*    dt = t_idx+1 - t_idx on NON-UNIFORM rational time grids,              *)
(*    A(t) = A0 + t A1, f(t) = f0 + t f1 + Fth th.  The initial condition    *)
(*    u0(th) = c0 + U0 th is the third component of the assembly at t_1     *)
(*    (assembled ONCE; the form's third component drifts with t so that a    *)
(*    re-assembled initial condition would be visible).  This is the        *)
(*    recurrence the docstrings / comments of TimeDependentLinearPDE        *)
(*    state: PDE_form(parameter, t) is 'the linear operator at time t',     *)
(*    'the source term at time t'; forward: 'from u at time t, gives u at   *)
(*    t+dt', backward: 'from u at time t-dt, gives u at t'.                 *)
(*    Every assembly is logged in `calls` (the times PDE_form is evaluated  *)
(*    at).  Observe: `final` on the solution grid = last column             *)
(*    (restriction); other times / grids = values of the interpolant,       *)
(*    specified at coinciding nodes and times (= restriction) only.         *)
(*                                                                         *)
(* kind "tobs" / "sobs": Observe on POLYNOMIAL data (degree <= 3 in x and   *)
(*    in t for the bicubic interpolant of the time-dependent class,         *)
(*    degree <= 2 for the quadratic interpolant of the steady class), which *)
(*    every polynomial-reproducing interpolant returns exactly: expected    *)
(*    values are p(x_obs, t_obs); at coinciding nodes/times this is the     *)
(*    restriction.                                                          *)
(*                                                                         *)
(* kind "sseq" / "tseq": ONE PDE object (SteadyStateLinearPDE /            *)
(*    TimeDependentLinearPDE) driven through a SEQUENCE of public calls -   *)
(*    a state machine over <<grid_sol, grid_obs, time_obs, cached equality  *)
(*    flag, assembled parameter, last solution>> with the actions           *)
(*    SetGridObs (incl. None = reset to grid_sol), SetGridSol, SetTimeObs,  *)
(*    Assemble(th), Solve, Observe and Forward(th) (= PDEModel.forward =    *)
(*    Assemble . Solve . Observe on the same object) and the history        *)
(*    variable `hist` (one entry per call with the abstract state and the   *)
(*    exact value the call has to return).  Depth bounded.  Observe is      *)
(*    implementation shaped (it branches on the CACHED flag `eq`); the      *)
(*    invariant SeqObserveCurrent requires every observation to be the      *)
(*    restriction / interpolant for the CURRENT grid_sol, grid_obs and      *)
(*    time_obs (computed without the flag), SeqFlagFresh that the cached    *)
(*    decision agrees with the current grids after every call.  The grids   *)
(*    have 3 (steady) / 4 x 4 (time) nodes, where the quadratic / bicubic   *)
(*    interpolant the code documents IS the Lagrange polynomial through all *)
(*    nodes - expected values are exact rationals for ANY solution.         *)
(*                                                                         *)
(* modes of the kinds "sseq" / "tseq" (field `mode` of the problem):        *)
(*    "grid" : the sequences above.                                         *)
(*    "param": PARAMETER ARRAYS WITH AN IDENTITY.  The user owns two arrays *)
(*       P and Q (`heap`: object -> current value); MutateParam(o, th) is   *)
(*       the IN-PLACE modification of the array o (same identity, new       *)
(*       value), Use(a) the call pde.assemble(a) . solve() . observe() on   *)
(*       the PDE object ("pipeline") or PDEModel.forward(a) for a = the     *)
(*       array itself or a copy of it.  The object remembers the IDENTITY    *)
(*       of the array assembled last (`parobj`) next to the VALUE its        *)
(*       assembled system belongs to (`par`); SeqParamCurrent requires the  *)
(*       system, the solution and the observation of every Use to belong to *)
(*       the CURRENT value of the supplied array, SeqSameParamSameValue     *)
(*       that equal parameter values give equal results (copy vs same       *)
(*       object, f(th1).f(th2).f(th1): third = first), SeqArgsUntouched     *)
(*       that no call but MutateParam changes an array of the user.         *)
(*    "ginp" : GRID ARRAYS WITH AN IDENTITY.  The arrays handed over as      *)
(*       grid_sol / grid_obs / time_obs stay with the user (`live`);        *)
(*       MutateGrid(slot, v) modifies one in place, Reassign(slot) hands    *)
(*       the SAME array over again (pde.grid_obs = g; for time_obs, which   *)
(*       has no setter, a new object is constructed with the same arrays).  *)
(*       The documented ways to choose a grid are the constructor and the   *)
(*       setters, so the grid of the object is the value at the last        *)
(*       hand-over; between an in-place modification and the next hand-over *)
(*       nothing is specified (entries `defined = FALSE`: the replayer       *)
(*       records which grid the library used, never a violation); after     *)
(*       Reassign the observation has to be the one for the new values.     *)
(*                                                                         *)
(*    "order": THE ORDER OF THE OBSERVATION GRID / TIMES.  grid_obs and      *)
(*       time_obs are sequences chosen freely by the user ('the grid on      *)
(*       which the observed solution should be interpolated', 'an array of  *)
(*       the times at which the solution is observed'): permutations,        *)
(*       reversed, unsorted sub-selections of the solution nodes / time      *)
(*       levels, repeated nodes, points between the nodes in non-ascending   *)
(*       order - at construction and through SetGridObs / SetGridSol /      *)
(*       SetTimeObs afterwards.  observed[k] is the value of the solution    *)
(*       (interpolant) at grid_obs[k] (and time_obs[j]) IN THE ORDER OF THE  *)
(*       OBSERVATION GRID (SeqObserveCurrent; ObsNow looks every node up).   *)
(*       Each entry carries the class `order` of the current grid_obs /     *)
(*       time_obs: "asc", "repeated" (a refusal by the library is an         *)
(*       observation) or "unsorted".                                         *)
(*    The same sequences are observation grids / times of the kinds sobs /  *)
(*    tobs (polynomial data on 5 x 5 nodes: rev, perm, subu, rep, repu,     *)
(*    shiftu, mixu), steady (omode perm / pick) and time (explu, finalrev). *)
(*                                                                         *)
(*    "solve": SEVERAL PARAMETERS RUN THROUGH ONE TIME-DEPENDENT OBJECT.     *)
(*       Assemble(p1) Solve Assemble(p2) Solve ... (and Solve twice) on the  *)
(*       PDE object, Forward(p1) Forward(p2) Gradient(p) through PDEModel,   *)
(*       on time grids with ONE, two and three steps (rational and integer   *)
(*       levels), one and two nodes, both methods; operator, source AND      *)
(*       initial condition depend on the parameter and on time               *)
(*       (A = A0 + t A1 + th1 A2).  Solve is implementation shaped: it goes  *)
(*       through the assemble_step calls of solve() and the object keeps the *)
(*       step system <<time, parameter>> it holds BETWEEN the calls (field   *)
(*       `asm`).  SeqSolveCurrent: every solution satisfies the documented   *)
(*       recurrence, from the initial condition, for the parameter assembled *)
(*       LAST; SeqSensCurrent: the Jacobian a Gradient call is answered with *)
(*       satisfies the differentiated recurrence at the parameter of THAT    *)
(*       call.                                                               *)
(*                                                                         *)
(* WHERE THE GRIDS LIE ON THE AXIS (kinds sobs / tobs, field xf): the nodes *)
(*    are x = om 2^oe + 2^se xi for the reference nodes xi - translated by   *)
(*    0, +-2^10, +-2^20, scaled by 2^-30 .. 2^20 (powers of two: the nodes   *)
(*    are exact floating point numbers).  Interpolation commutes with an     *)
(*    affine change of variable, so the observation does NOT depend on xf    *)
(*    (ObsAffine: checked by TLC for every xf whose nodes fit 32-bit         *)
(*    rationals); 'the grids are equal' means equal node for node, so an     *)
(*    observation grid staggered by a fraction of a cell is interpolated     *)
(*    WHATEVER the magnitude of the nodes (SobsImplExact / TobsImplExact on  *)
(*    the implementation-shaped observation ObsImplS / ObsImplT).            *)
(*                                                                         *)
(* Named deviations (off in the deciding configurations):                  *)
(*    OperatorAtOldTime : backward Euler assembles at t_idx instead of      *)
(*                        t_idx+1  -> the discrete equation is violated     *)
(*    DtFromNextInterval: dt = t_idx+2 - t_idx+1                            *)
(*    DevStaleGridFlag  : the grid_obs setter does not refresh the cached   *)
(*                        equality flag -> SeqObserveCurrent is violated    *)
(*    DevAssembleSkipsSameObject: assemble returns early when it is called  *)
(*                        with the array OBJECT assembled last (identity     *)
(*                        test) -> SeqParamCurrent is violated               *)
(*    DevSetterSkipsSameObject  : a grid setter called with the array object *)
(*                        it already holds does not refresh the cached flag  *)
(*                        -> SeqObserveCurrent is violated                   *)
(*    DevObserveInSolutionOrder : when every observation node is a solution  *)
(*                        node, observe restricts the solution with the MASK *)
(*                        of the solution nodes that are observation nodes - *)
(*                        the values come in the order of the SOLUTION grid  *)
(*                        -> SeqObserveCurrent (SteadyObserve) is violated   *)
(*    DevStaleStepSystem : assemble_step(t) returns early when the object     *)
(*                        holds a step system assembled at the same time t - *)
(*                        and nothing resets that between two solves: with a *)
(*                        single forward Euler step the second parameter is  *)
(*                        solved with the system of the first                *)
(*                        -> SeqSolveCurrent is violated                      *)
(*    DevEqualWithinTolerance : 'grids equal' / 'time_obs is the final time' *)
(*                        decided with a tolerance relative to the magnitude *)
(*                        of the nodes (2^-16 |x|) -> a staggered grid far    *)
(*                        from the origin is restricted instead of           *)
(*                        interpolated: SobsImplExact / TobsImplExact fail   *)
(***************************************************************************)
EXTENDS MatQ, FiniteSets, TLC, Json

CONSTANTS Level,               \* 1 quick, 2 thorough (more parameters / grids / matrices)
          Kinds,               \* subset of {"steady", "time", "tobs", "sobs"}
          Emit,
          UBound,              \* time: a level whose numerators / denominators exceed this is not stepped further (32-bit TLC)
          OperatorAtOldTime,
          DtFromNextInterval,
          SeqDepth,            \* sseq / tseq: number of calls after construct - assemble - solve
          SeqSetters,          \* sseq / tseq: at most this many setter calls in one behaviour
          DevStaleGridFlag,    \* deviation: "the grid_obs setter does not refresh the cached equality flag"
          ParDepth,            \* mode "param": number of calls (Use / MutateParam) after construct - assemble(P) - solve
          ParMutations,        \* mode "param": at most this many in-place modifications in one behaviour
          GinpDepth,           \* mode "ginp": number of calls (Observe / Forward / MutateGrid / Reassign)
          DevAssembleSkipsSameObject,   \* deviation: "assemble returns early for the parameter OBJECT assembled last"
          DevSetterSkipsSameObject,     \* deviation: "a grid setter given the array object it holds keeps the cached flag"
          OrdDepth,            \* mode "order": number of calls (SetGridObs / SetGridSol / SetTimeObs / Observe / Forward)
          DevObserveInSolutionOrder,    \* deviation: "observation nodes that are all solution nodes are read off with a mask"
          SolveDepth,          \* mode "solve": number of calls (Assemble / Solve; Forward / Gradient: SolveDepth - 2)
          DevStaleStepSystem,  \* deviation: "assemble_step(t) keeps the step system it holds when that was assembled at the same time t"
          DevEqualWithinTolerance       \* deviation: "grids (final time) are taken for equal when they agree within a relative tolerance"

VARIABLES pb,      \* the problem
          ph,      \* "new" / "run"
          st,      \* time: [idx, u]; otherwise <<>>
          traj,    \* time: stored levels u_1 .. u_idx  (sequence of vectors)
          calls,   \* time: times at which the form has been assembled, in order
          obj,     \* sseq / tseq: abstract state of the ONE PDE object (see SeqNew); otherwise <<>>
          hist     \* sseq / tseq: history variable - one entry per call with the value it has to return

vars == <<pb, ph, st, traj, calls, obj, hist>>
Run(kind) == ph = "run" /\ pb.kind = kind

Two == R(2)
IV(v) == VR(v)                     \* integer vector -> rational
IM(M) == MR(M)

(***************************************************************************)
(* steady state                                                            *)
(***************************************************************************)
Pois3 == <<<<2, -1, 0>>, <<-1, 2, -1>>, <<0, -1, 2>>>>
SteadyMats ==
    { [n |-> 2, A0 |-> <<<<2, -1>>, <<-1, 2>>>>, A1 |-> <<<<1, 0>>, <<0, 0>>>>, A2 |-> <<<<0, 1>>, <<1, 0>>>>,
       f0 |-> <<1, 0>>, f1 |-> <<0, 1>>, f2 |-> <<1, -1>>, grid |-> <<Zero, One>>],
      [n |-> 2, A0 |-> <<<<1, 2>>, <<0, 1>>>>, A1 |-> <<<<0, 0>>, <<1, 1>>>>, A2 |-> <<<<1, 0>>, <<0, -1>>>>,
       f0 |-> <<0, 2>>, f1 |-> <<1, 1>>, f2 |-> <<0, 0>>, grid |-> <<Zero, Q(1, 2)>>],
      [n |-> 3, A0 |-> Pois3, A1 |-> <<<<1, 0, 0>>, <<0, 0, 0>>, <<0, 0, 1>>>>, A2 |-> <<<<0, 1, 0>>, <<1, 0, 0>>, <<0, 0, 0>>>>,
       f0 |-> <<1, 0, -1>>, f1 |-> <<0, 1, 0>>, f2 |-> <<1, 1, 1>>, grid |-> <<Zero, Q(1, 2), Two>>],
      \* boundary size: a SINGLE node (3 + th1 - th2 is singular on part of the lattice: filtered by Solvable)
      [n |-> 1, A0 |-> <<<<3>>>>, A1 |-> <<<<1>>>>, A2 |-> <<<<-1>>>>, f0 |-> <<2>>, f1 |-> <<1>>, f2 |-> <<3>>, grid |-> <<Q(1, 2)>>] }
    \cup (IF Level < 2 THEN {} ELSE
    { [n |-> 3, A0 |-> <<<<1, 1, 0>>, <<0, 1, -1>>, <<1, 0, 2>>>>, A1 |-> <<<<0, 0, 1>>, <<0, 1, 0>>, <<0, 0, 0>>>>,
       A2 |-> <<<<1, 0, 0>>, <<0, 0, 0>>, <<0, 1, 0>>>>,
       f0 |-> <<0, 2, 1>>, f1 |-> <<1, 0, 1>>, f2 |-> <<0, -1, 0>>, grid |-> <<RNeg(One), Zero, Q(3, 2)>>] })

ThetaS == IF Level < 2 THEN {<<0, 0>>, <<1, -1>>, <<2, 1>>, <<-1, 2>>} ELSE {<<a, b>> : a \in -1..2, b \in -1..2}

\* observation: "same" = observation grid is the solution grid (restriction); "other" = another grid (n = 3: parabola);
\* "perm" = the solution nodes in another order; "pick" = an unsorted sub-selection of them (n = 3)
ObsGridS(m, mode) ==
    CASE mode = "same"  -> m.grid
      [] mode = "other" -> << QAdd(m.grid[1], Q(1, 4)), m.grid[2], QSub(m.grid[3], Q(1, 2)), QMul(Q(1, 2), QAdd(m.grid[1], m.grid[3])) >>
      [] mode = "perm"  -> << m.grid[3], m.grid[1], m.grid[2] >>
      [] mode = "pick"  -> << m.grid[3], m.grid[1] >>

SteadyProblems ==
    { [kind |-> "steady", m |-> m, th |-> th, ret |-> ret, omode |-> om, omap |-> mp] :
        m \in SteadyMats, th \in ThetaS, ret \in 0..2, om \in {"same", "other", "perm", "pick"}, mp \in {"id", "sq", "first"} }
SteadyValid(p) == /\ (p.omode # "same" => p.m.n = 3)
                  /\ (Level < 2 => (p.ret + p.th[1] + p.th[2]) % 3 = (IF p.omap = "id" THEN 0 ELSE IF p.omap = "sq" THEN 1 ELSE 2))

AOf(m, th) == QMAdd(QMAdd(IM(m.A0), QMScale(R(th[1]), IM(m.A1))), QMScale(R(th[2]), IM(m.A2)))
FOf(m, th) == QVAdd(QVAdd(IV(m.f0), QVScale(R(th[1]), IV(m.f1))), QVScale(R(th[2]), IV(m.f2)))

\* Gauss-Jordan solution; Solvable <=> full rank
Solvable(A) == QRank(A) = Len(A)
SolveS(p)   == QSolve(AOf(p.m, p.th), FOf(p.m, p.th))
\* dU_k: A dU_k = f_k - A_k u
Sens(p, u) ==
    LET A == AOf(p.m, p.th)
    IN << QSolve(A, QVSub(IV(p.m.f1), QMV(IM(p.m.A1), u))), QSolve(A, QVSub(IV(p.m.f2), QMV(IM(p.m.A2), u))) >>

\* Lagrange polynomial through (X_i, v_i) at x
LagBasis(X, i, x) ==
    LET idx == {j \in 1..Len(X) : j # i}
        RECURSIVE Prod(_)
        Prod(S) == IF S = {} THEN One
                   ELSE LET j == CHOOSE k \in S : TRUE
                        IN QMul(QDiv(QSub(x, X[j]), QSub(X[i], X[j])), Prod(S \ {j}))
    IN Prod(idx)
Lagrange(X, v, x) == QSumSeq([i \in 1..Len(X) |-> QMul(v[i], LagBasis(X, i, x))])

\* index of x in the grid X (0 if absent)
IndexIn(X, x) == IF \E i \in 1..Len(X) : X[i] = x THEN CHOOSE i \in 1..Len(X) : X[i] = x ELSE 0

\* ---- the order of an observation grid / of observation times ---------------------
\* strictly ascending ("asc"), with a repeated entry ("repeated": whether the library accepts it is not documented - a
\* refusal is an observation), otherwise "unsorted" (reversed, permuted, any descent)
Rev(s)       == [i \in 1..Len(s) |-> s[Len(s) + 1 - i]]
QLess(a, b)  == QSub(b, a)[1] > 0
HasRepeat(G) == \E i, j \in 1..Len(G) : i # j /\ G[i] = G[j]
Ascending(G) == \A i \in 1..(Len(G) - 1) : QLess(G[i], G[i + 1])
OrderOf(G)   == IF HasRepeat(G) THEN "repeated" ELSE IF Ascending(G) THEN "asc" ELSE "unsorted"
\* of an observation grid and observation times together
OrderOf2(G, TO) == IF HasRepeat(G) \/ HasRepeat(TO) THEN "repeated"
                   ELSE IF Ascending(G) /\ Ascending(TO) THEN "asc" ELSE "unsorted"

\* named deviation ObserveInSolutionOrder: the solution nodes that are observation nodes, as a mask (= in the order of
\* the SOLUTION grid); it is used when it selects as many nodes as the observation grid has
MaskSet(X, G)     == {i \in 1..Len(X) : \E k \in 1..Len(G) : G[k] = X[i]}
MaskOk(X, G)      == Cardinality(MaskSet(X, G)) = Len(G)
MaskSeq(X, G)     == LET S == MaskSet(X, G) IN [k \in 1..Cardinality(S) |-> CHOOSE i \in S : Cardinality({j \in S : j < i}) = k - 1]
MaskPick(X, u, G) == LET M == MaskSeq(X, G) IN F([k \in 1..Len(G) |-> u[M[k]]])

\* spatial observation of a nodal vector u on grid X at the points G (implementation shaped: restriction when the grids
\* are equal, otherwise the interpolant evaluated at G[1], G[2], ... in THIS order)
ObserveSpace(X, u, G) ==
    IF G = X THEN u                                                      \* restriction (no interpolation)
    ELSE IF DevObserveInSolutionOrder /\ MaskOk(X, G) THEN MaskPick(X, u, G)
    ELSE F([i \in 1..Len(G) |-> Lagrange(X, u, G[i])])

ApplyMap(mp, v) ==
    CASE mp = "id"    -> v
      [] mp = "sq"    -> F([i \in 1..Len(v) |-> QSq(v[i])])
      [] mp = "first" -> <<v[1]>>
\* derivative of the map at v applied to a vector d
ApplyMapD(mp, v, d) ==
    CASE mp = "id"    -> d
      [] mp = "sq"    -> F([i \in 1..Len(v) |-> QMul(QMul(Two, v[i]), d[i])])
      [] mp = "first" -> <<d[1]>>

ForwardS(p) == ApplyMap(p.omap, ObserveSpace(p.m.grid, SolveS(p), ObsGridS(p.m, p.omode)))
\* Jacobian columns of the forward map (observation is linear in u up to the map)
JacS(p) ==
    LET u == SolveS(p)  G == ObsGridS(p.m, p.omode)  dU == Sens(p, u)
        ou == ObserveSpace(p.m.grid, u, G)
    IN F([k \in 1..2 |-> ApplyMapD(p.omap, ou, ObserveSpace(p.m.grid, dU[k], G))])

SteadySolves ==
    Run("steady") =>
        LET A == AOf(pb.m, pb.th)  u == SolveS(pb)  dU == Sens(pb, u)
        IN /\ QMV(A, u) = FOf(pb.m, pb.th)                                              \* the assembled system holds
           /\ QMV(A, dU[1]) = QVSub(IV(pb.m.f1), QMV(IM(pb.m.A1), u))                   \* differentiated system
           /\ QMV(A, dU[2]) = QVSub(IV(pb.m.f2), QMV(IM(pb.m.A2), u))

\* restriction at coinciding nodes; the interpolant reproduces the data at every node it shares with the grid:
\* o[i] is the nodal value at the node G[i] - in the order of the OBSERVATION grid (deviation ObserveInSolutionOrder fails here)
SteadyObserve ==
    Run("steady") =>
        LET u == SolveS(pb)  G == ObsGridS(pb.m, pb.omode)  o == ObserveSpace(pb.m.grid, u, G)
        IN /\ (pb.omode = "same" => o = u)
           /\ \A i \in 1..Len(G) : IndexIn(pb.m.grid, G[i]) # 0 => o[i] = u[IndexIn(pb.m.grid, G[i])]

\* first-order exactness of the Jacobian along th1: A(th + e1)(u(th + e1) - u(th)) = f1 - A1 u(th)
SteadyJacobianSecant ==
    Run("steady") =>
        LET th1 == <<pb.th[1] + 1, pb.th[2]>>  A1 == AOf(pb.m, th1)
        IN Solvable(A1) =>
             QMV(A1, QVSub(QSolve(A1, FOf(pb.m, th1)), SolveS(pb))) = QVSub(IV(pb.m.f1), QMV(IM(pb.m.A1), SolveS(pb)))

EmitSteady ==
    (Emit /\ Run("steady")) =>
        PrintT("@@CASE " \o ToJson([kind |-> "steady", n |-> pb.m.n, A0 |-> pb.m.A0, A1 |-> pb.m.A1, A2 |-> pb.m.A2, f0 |-> pb.m.f0,
                                    f1 |-> pb.m.f1, f2 |-> pb.m.f2, th |-> pb.th, ret |-> pb.ret, grid |-> pb.m.grid,
                                    omode |-> pb.omode, gobs |-> ObsGridS(pb.m, pb.omode), omap |-> pb.omap,
                                    order |-> OrderOf(ObsGridS(pb.m, pb.omode)),
                                    A |-> AOf(pb.m, pb.th), f |-> FOf(pb.m, pb.th), u |-> SolveS(pb),
                                    fwd |-> ForwardS(pb), jac |-> JacS(pb)]) \o " @@END")

(***************************************************************************)
(* time dependent                                                          *)
(***************************************************************************)
\* (the last one: boundary size, a SINGLE time step)
Grids == { <<Zero, Q(1, 2), One, Two>>, <<Zero, One, Q(3, 2), Two, R(4)>>, <<Q(1, 2), Two>> }
         \cup (IF Level < 2 THEN {} ELSE { <<RNeg(One), Q(-1, 2), Q(1, 2)>>, <<Zero, Q(1, 2), Q(3, 2), Two>> })

TimeMats ==
    { [n |-> 2, A0 |-> <<<<-2, 1>>, <<1, -2>>>>, A1 |-> <<<<0, 1>>, <<0, 0>>>>, f0 |-> <<1, 0>>, f1 |-> <<0, 1>>,
       Fth |-> <<<<1, 0>>, <<0, 0>>>>, c0 |-> <<1, -1>>, U0 |-> <<<<1, 0>>, <<1, 1>>>>, w |-> <<3, -5>>, x |-> <<Zero, One>>],
      [n |-> 2, A0 |-> <<<<0, 1>>, <<-1, 0>>>>, A1 |-> <<<<1, 0>>, <<0, -1>>>>, f0 |-> <<0, 0>>, f1 |-> <<1, -1>>,
       Fth |-> <<<<0, 1>>, <<1, 0>>>>, c0 |-> <<0, 2>>, U0 |-> <<<<0, 1>>, <<1, 0>>>>, w |-> <<-2, 7>>, x |-> <<Zero, Q(1, 2)>>],
      [n |-> 3, A0 |-> <<<<-2, 1, 0>>, <<1, -2, 1>>, <<0, 1, -2>>>>, A1 |-> <<<<0, 0, 1>>, <<0, 0, 0>>, <<-1, 0, 0>>>>,
       f0 |-> <<1, 0, -1>>, f1 |-> <<0, 1, 0>>, Fth |-> <<<<1, 0>>, <<0, 1>>, <<0, 0>>>>, c0 |-> <<0, 1, 0>>,
       U0 |-> <<<<1, 0>>, <<0, 1>>, <<1, 1>>>>, w |-> <<1, 2, 3>>, x |-> <<Zero, One, Q(3, 2)>>],
      \* four nodes (needed for `all` / explicit observation times through the bicubic interpolant): upwind transport
      [n |-> 4, A0 |-> <<<<-1, 0, 0, 0>>, <<1, -1, 0, 0>>, <<0, 1, -1, 0>>, <<0, 0, 1, -1>>>>,
       A1 |-> <<<<0, 0, 0, 0>>, <<1, 0, 0, 0>>, <<0, 0, 0, 0>>, <<0, 0, 1, 0>>>>,
       f0 |-> <<1, 0, 0, 0>>, f1 |-> <<0, 0, 1, 0>>, Fth |-> <<<<1, 0>>, <<0, 0>>, <<0, 1>>, <<0, 0>>>>, c0 |-> <<1, 0, 0, 2>>,
       U0 |-> <<<<1, 0>>, <<0, 1>>, <<1, 1>>, <<0, 0>>>>, w |-> <<1, -1, 2, 4>>, x |-> <<Zero, Q(1, 2), One, Two>>],
      \* boundary size: a SINGLE node
      [n |-> 1, A0 |-> <<<<-1>>>>, A1 |-> <<<<-1>>>>, f0 |-> <<1>>, f1 |-> <<2>>, Fth |-> <<<<1, -1>>>>, c0 |-> <<2>>,
       U0 |-> <<<<1, 1>>>>, w |-> <<3>>, x |-> <<Q(1, 2)>>] }

ThetaT == IF Level < 2 THEN {<<1, -1>>, <<0, 2>>} ELSE {<<1, -1>>, <<0, 2>>, <<0, 0>>, <<2, 1>>, <<-1, -2>>}

\* observation modes of the time-dependent class
\*   final  : time_obs = 'final', observation grid = solution grid  -> last column (restriction)
\*   all    : time_obs = 'all',   observation grid = solution grid  -> whole trajectory (coinciding nodes and times)
\*   expl   : time_obs = two of the time steps, observation grid = two of the nodes (coinciding)
\*   explu  : as expl, but the final time FIRST and the nodes in another order (unsorted sub-selections)
\*   finalrev : time_obs = the final time, observation grid = the solution nodes REVERSED
TModes(m, T) == IF m.n >= 4 /\ Len(T) >= 4 THEN {"final", "all", "expl", "explu", "finalrev"} ELSE {"final"}

TimeProblems ==
    UNION { { [kind |-> "time", m |-> m, T |-> T, th |-> th, method |-> me, ret |-> ret, omode |-> om, omap |-> mp] :
                th \in ThetaT, me \in {"forward_euler", "backward_euler"}, ret \in 0..2, om \in TModes(m, T), mp \in {"id", "sq"} }
            : m \in TimeMats, T \in Grids }
TimeValid(p) == /\ (p.method = "forward_euler" => p.ret = 0)
                /\ (Level < 2 => ((p.ret + p.th[1]) % 2 = (IF p.omap = "id" THEN 0 ELSE 1)))

ATime(m, t)     == QMAdd(IM(m.A0), QMScale(t, IM(m.A1)))
FTime(m, th, t) == QVAdd(QVAdd(IV(m.f0), QVScale(t, IV(m.f1))), QMV(IM(m.Fth), IV(th)))
\* third component of the form at time t: drifts with t - T[1]; the initial condition is its value at T[1]
ICForm(m, th, T, t) == QVAdd(QVAdd(IV(m.c0), QMV(IM(m.U0), IV(th))), QVScale(QSub(t, T[1]), IV(m.w)))
U0Of(p) == QVAdd(IV(p.m.c0), QMV(IM(p.m.U0), IV(p.th)))

NSteps(p) == Len(p.T) - 1

\* 32-bit guard (see Solvers.tla): a trajectory whose numbers grow beyond UBound is "abandoned"; its prefix is still emitted
SmallU(u) == \A i \in 1..Len(u) : Abs(u[i][1]) <= UBound /\ u[i][2] <= UBound
StatusT(p, idx, u) == IF idx = Len(p.T) THEN "done" ELSE IF SmallU(u) THEN "step" ELSE "abandoned"

TimeInit(p) ==
    /\ st' = [idx |-> 1, u |-> ICForm(p.m, p.th, p.T, p.T[1]), status |-> StatusT(p, 1, ICForm(p.m, p.th, p.T, p.T[1]))]
    /\ traj' = << ICForm(p.m, p.th, p.T, p.T[1]) >>
    /\ calls' = << p.T[1] >>

\* time level the operator and source are assembled at, and the step length, for the step idx -> idx + 1
AssembleTime(p, idx) == IF p.method = "forward_euler" \/ OperatorAtOldTime THEN p.T[idx] ELSE p.T[idx + 1]
DtOf(p, idx) == IF DtFromNextInterval /\ idx + 2 <= Len(p.T) THEN QSub(p.T[idx + 2], p.T[idx + 1])
                ELSE QSub(p.T[idx + 1], p.T[idx])

\* one Euler step from u with operator and source assembled at time ta and step length dt
EulerStep(m, th, method, ta, dt, u) ==
    LET A == ATime(m, ta)
        f == FTime(m, th, ta)
        n == m.n
    IN IF method = "forward_euler"
       THEN F(QVAdd(QMV(QMAdd(MId(n), QMScale(dt, A)), u), QVScale(dt, f)))
       ELSE F(QSolve(QMSub(MId(n), QMScale(dt, A)), QVAdd(u, QVScale(dt, f))))

Step ==
    /\ Run("time")
    /\ st.status = "step"
    /\ LET ta == AssembleTime(pb, st.idx)
           u1 == EulerStep(pb.m, pb.th, pb.method, ta, DtOf(pb, st.idx), st.u)
       IN /\ st' = [idx |-> st.idx + 1, u |-> u1, status |-> StatusT(pb, st.idx + 1, u1)]
          /\ traj' = Append(traj, u1)
          /\ calls' = Append(calls, ta)
    /\ UNCHANGED <<pb, ph, obj, hist>>

\* ---- invariants ------------------------------------------------------------
\* every stored level satisfies the documented discrete equation with the operator/source of ITS step
DiscreteEquation ==
    Run("time") =>
        \A i \in 1..(IF st.status = "abandoned" THEN Len(traj) - 2 ELSE Len(traj) - 1) :     \* (abandoned: last level too large)
            LET dt == QSub(pb.T[i + 1], pb.T[i])
                tl == IF pb.method = "forward_euler" THEN pb.T[i] ELSE pb.T[i + 1]          \* documented time level
                ua == IF pb.method = "forward_euler" THEN traj[i] ELSE traj[i + 1]
            IN QVSub(traj[i + 1], traj[i]) = QVScale(dt, QVAdd(QMV(ATime(pb.m, tl), ua), FTime(pb.m, pb.th, tl)))

InitialCondition ==
    Run("time") => traj[1] = U0Of(pb)

\* stepping ends exactly at the last time level; one assembly for the initial condition and one per step
Progress ==
    Run("time") => /\ st.idx = Len(traj) /\ st.idx <= Len(pb.T)
                   /\ Len(calls) = st.idx
                   /\ calls[1] = pb.T[1]
                   /\ \A i \in 1..(st.idx - 1) : calls[i + 1] = (IF pb.method = "forward_euler" THEN pb.T[i] ELSE pb.T[i + 1])

TimeDone == Run("time") /\ st.status = "done"
TimeEnded == Run("time") /\ st.status # "step"

\* observation of the finished trajectory
TObsTimes(p) == CASE p.omode \in {"final", "finalrev"} -> << p.T[Len(p.T)] >>
                  [] p.omode = "all"   -> p.T
                  [] p.omode = "expl"  -> << p.T[2], p.T[Len(p.T)] >>
                  [] p.omode = "explu" -> << p.T[Len(p.T)], p.T[2] >>
TObsGrid(p)  == CASE p.omode = "expl"     -> << p.m.x[1], p.m.x[3], p.m.x[4] >>
                  [] p.omode = "explu"    -> << p.m.x[4], p.m.x[1], p.m.x[3] >>
                  [] p.omode = "finalrev" -> Rev(p.m.x)
                  [] OTHER                -> p.m.x

\* restriction: rows = coinciding nodes, columns = coinciding times - row i belongs to the node G[i], column j to the
\* time TO[j] (the order of the observation grid / times, not that of the solution grid / time levels)
ObserveT(p, tr) ==
    LET G == TObsGrid(p)  TO == TObsTimes(p)
    IN F([i \in 1..Len(G) |-> [j \in 1..Len(TO) |-> tr[IndexIn(p.T, TO[j])][IndexIn(p.m.x, G[i])]]])
MapRows(mp, M) == F([i \in 1..Len(M) |-> ApplyMap(IF mp = "first" THEN "id" ELSE mp, M[i])])

FinalIsRestriction ==
    (TimeDone /\ pb.omode = "final") =>
        LET o == ObserveT(pb, traj) IN /\ Len(o) = pb.m.n
                                       /\ \A i \in 1..pb.m.n : o[i] = << traj[Len(pb.T)][i] >>

EmitTime ==
    (Emit /\ TimeEnded) =>
        PrintT("@@CASE " \o ToJson([kind |-> "time", status |-> st.status, n |-> pb.m.n, A0 |-> pb.m.A0, A1 |-> pb.m.A1, f0 |-> pb.m.f0, f1 |-> pb.m.f1,
                                    Fth |-> pb.m.Fth, c0 |-> pb.m.c0, U0 |-> pb.m.U0, w |-> pb.m.w, x |-> pb.m.x, T |-> pb.T,
                                    th |-> pb.th, method |-> pb.method, ret |-> pb.ret, omode |-> pb.omode, omap |-> pb.omap,
                                    traj |-> traj, calls |-> calls, gobs |-> TObsGrid(pb), tobs |-> TObsTimes(pb),
                                    order |-> OrderOf2(TObsGrid(pb), TObsTimes(pb)),
                                    obs |-> IF st.status = "done" THEN ObserveT(pb, traj) ELSE <<>>]) \o " @@END")    \* the map is applied by the replayer (32 bit)

(***************************************************************************)
(* observation of polynomial data                                          *)
(***************************************************************************)
\* p(x, t) = sum c[a][b] x^(a-1) t^(b-1)
RECURSIVE QPow(_, _)
QPow(a, k) == IF k = 0 THEN One ELSE QMul(a, QPow(a, k - 1))
Poly2(c, x, t) == QSumSeq([a \in 1..Len(c) |-> QSumSeq([b \in 1..Len(c[a]) |-> QMul(R(c[a][b]), QMul(QPow(x, a - 1), QPow(t, b - 1)))])])

Polys2 == { <<<<1, 0, 2, -1>>, <<0, -3, 1, 0>>, <<2, 1, 0, 1>>, <<-1, 0, 1, 2>>>>,        \* degree 3 in x and in t
            <<<<0, 1>>, <<2, -1>>, <<1, 3>>>> }                                           \* degree 2 in x, 1 in t
XGrid == << Zero, Q(1, 2), One, Two, R(3) >>
TGrid == << Zero, Q(1, 4), One, Q(3, 2), Two >>

\* observation grids / times: same, a coinciding subset, shifted points
\* shift5: as many nodes as the solution grid, none of them a solution node except the first (a grid comparison that
\* looks at the length - or at the first node - only would take it for the solution grid and restrict)
\* ORDER facet (the user is free in the order of the nodes / times): rev = the solution nodes reversed, perm = permuted
\* (both have the length of the solution grid and contain exactly its nodes), subu = unsorted sub-selection, rep / repu =
\* a node twice (ascending / not), shiftu = points between the nodes in non-ascending order, mixu = nodes and points
\* between the nodes mixed, non-ascending; likewise for the times (finu: the final time FIRST)
GObsSet == [same |-> XGrid, sub |-> << XGrid[2], XGrid[5] >>, shift |-> << Q(1, 4), Q(3, 2), Q(5, 2) >>,
            shift5 |-> << Zero, Q(3, 4), Q(3, 2), Q(5, 2), Q(11, 4) >>,
            rev |-> Rev(XGrid), perm |-> << XGrid[3], XGrid[1], XGrid[5], XGrid[2], XGrid[4] >>,
            subu |-> << XGrid[4], XGrid[2] >>, rep |-> << XGrid[2], XGrid[2], XGrid[4] >>,
            repu |-> << XGrid[4], XGrid[2], XGrid[4] >>, shiftu |-> << Q(5, 2), Q(1, 4), Q(3, 2) >>,
            mixu |-> << XGrid[4], Q(3, 4), XGrid[2] >>,
            \* stag: as many nodes as the solution grid, EVERY node staggered by half a cell (a quarter where the cell is 1/2)
            stag |-> << Q(1, 4), Q(3, 4), Q(3, 2), Q(5, 2), Q(11, 4) >>]
TObsSet == [final |-> << TGrid[5] >>, all |-> TGrid, sub |-> << TGrid[2], TGrid[4] >>, shift |-> << Q(1, 2), Q(7, 4) >>,
            one |-> << Q(3, 4) >>,
            allrev |-> Rev(TGrid), subu |-> << TGrid[4], TGrid[2] >>, finu |-> << TGrid[5], TGrid[2] >>,
            rep |-> << TGrid[2], TGrid[2], TGrid[5] >>, shiftu |-> << Q(7, 4), Q(1, 2) >>,
            mixu |-> << TGrid[5], Q(3, 4), TGrid[2] >>,
            \* near: ONE time close to the final time (not the final time); tstag: as many times as levels, none of them a level
            near |-> << Q(15, 8) >>, tstag |-> << Q(1, 8), Q(1, 2), Q(5, 4), Q(7, 4), Q(15, 8) >>]
GOld == {"same", "sub", "shift", "shift5"}
TOld == {"final", "all", "sub", "shift", "one"}
GOrd == {"rev", "perm", "subu", "rep", "repu", "shiftu", "mixu"}
TOrd == {"allrev", "subu", "finu", "rep", "shiftu", "mixu"}
\* all pairs of the ascending grids / times; every ORDER grid with the times final / all / unsorted; every ORDER time
\* sequence with the grids same / sub / shift
TobsPairs == (GOld \X TOld) \cup (GOrd \X {"final", "all", "subu", "shiftu"}) \cup ({"same", "sub", "shift"} \X TOrd)
             \cup {<<"stag", "final">>, <<"stag", "all">>, <<"stag", "near">>, <<"same", "near">>, <<"same", "tstag">>, <<"stag", "tstag">>}

\* ---- where the grids lie on the axis ---------------------------------------------------------------------
\* x = om 2^oe + 2^se xi (xi: the reference nodes above), the same change of variable for the solution grid and the
\* observation grid (for the time levels and the observation times).  Powers of two: the nodes are exact binary
\* floating point numbers, so the replayer builds exactly these grids.
XfSet == [id |-> [om |-> 0, oe |-> 0, se |-> 0],
          t10 |-> [om |-> 1, oe |-> 10, se |-> 0],         \* translated by 2^10 ~ 1e3
          t20 |-> [om |-> 1, oe |-> 20, se |-> 0],         \* translated by 2^20 ~ 1e6
          n20 |-> [om |-> -1, oe |-> 20, se |-> 0],        \* translated by -2^20
          sm20 |-> [om |-> 0, oe |-> 0, se |-> -20],       \* scaled by 2^-20 ~ 1e-6
          sm30 |-> [om |-> 0, oe |-> 0, se |-> -30],       \* scaled by 2^-30 ~ 1e-9
          s20 |-> [om |-> 0, oe |-> 0, se |-> 20],         \* scaled by 2^20 (integer nodes)
          t10sm6 |-> [om |-> 1, oe |-> 10, se |-> -6],     \* cells of 2^-7 at 2^10 (half a cell = 4e-6 |x|)
          t20sm10 |-> [om |-> 1, oe |-> 20, se |-> -10],   \* cells of 2^-11 at 2^20 (half a cell = 2e-10 |x|)
          n10s3 |-> [om |-> -1, oe |-> 10, se |-> 3]]
XfNames == IF Level < 2 THEN {"t10", "t20", "n20", "sm20", "sm30", "s20", "t10sm6", "t20sm10"}
           ELSE {"t10", "t20", "n20", "sm20", "sm30", "s20", "t10sm6", "t20sm10", "n10s3"}
RECURSIVE IPow2(_)
IPow2(k) == IF k = 0 THEN 1 ELSE 2 * IPow2(k - 1)
Pow2(k)  == IF k >= 0 THEN R(IPow2(k)) ELSE <<1, IPow2(0 - k)>>
Aff(xf, x)    == QAdd(R(xf.om * IPow2(xf.oe)), QMul(Pow2(xf.se), x))
AffSeq(xf, X) == F([i \in 1..Len(X) |-> Aff(xf, X[i])])
\* the transformed nodes (quarters in space, eighths in time) and the products of their differences fit 32-bit rationals;
\* for the others (sm30, t20sm10) the replayer relies on ObsAffine as a theorem
XfRep(xf) == (IF xf.om = 0 THEN 0 ELSE xf.oe) - xf.se <= 24
\* grids / times observed under a change of variable (quick: one polynomial, identity map for the time class)
XfGrids == {"same", "stag", "shift5", "sub"}
XfPairs == {<<"same", "final">>, <<"same", "near">>, <<"stag", "final">>, <<"shift5", "final">>, <<"stag", "near">>,
            <<"same", "tstag">>, <<"stag", "all">>}
Poly2X == <<<<1, 0, 2, -1>>, <<0, -3, 1, 0>>, <<2, 1, 0, 1>>, <<-1, 0, 1, 2>>>>
Poly1X == <<<<1>>, <<-2>>, <<3>>>>

TobsCases ==
    { [kind |-> "tobs", c |-> c, g |-> gt[1], t |-> gt[2], omap |-> mp, xf |-> "id"] : c \in Polys2, gt \in TobsPairs, mp \in {"id", "sq"} }
    \cup { [kind |-> "tobs", c |-> Poly2X, g |-> gt[1], t |-> gt[2], omap |-> mp, xf |-> xf] :
             gt \in XfPairs, mp \in (IF Level < 2 THEN {"id"} ELSE {"id", "sq"}), xf \in XfNames }

DataT(c) == F([i \in 1..Len(XGrid) |-> [j \in 1..Len(TGrid) |-> Poly2(c, XGrid[i], TGrid[j])]])
ExpectT(k) == F([i \in 1..Len(GObsSet[k.g]) |-> [j \in 1..Len(TObsSet[k.t]) |-> Poly2(k.c, GObsSet[k.g][i], TObsSet[k.t][j])]])

\* tensor-product Lagrange interpolation through the nodes XS x TS of the data
Lag2(XS, TS, D, x, t) ==
    QSumSeq([i \in 1..Len(XS) |-> QMul(LagBasis(XS, i, x), QSumSeq([j \in 1..Len(TS) |-> QMul(LagBasis(TS, j, t), D[i][j])]))])
Sub4(s, skip) == [i \in 1..4 |-> IF i < skip THEN s[i] ELSE s[i + 1]]

\* (i) at coinciding nodes and times the expected observation is the stored value (restriction) - entry (i, j) belongs to
\*     the node G[i] and the time TO[j], whatever the order of G and TO;
\* (ii) two different cubic interpolants (nodes 1-4 and nodes 2-5) both give p at the observation points
TobsExact ==
    Run("tobs") =>
        LET D == DataT(pb.c)  E == ExpectT(pb)  G == GObsSet[pb.g]  TO == TObsSet[pb.t]
        IN /\ \A i \in 1..Len(G) : \A j \in 1..Len(TO) :
                 (IndexIn(XGrid, G[i]) # 0 /\ IndexIn(TGrid, TO[j]) # 0) => E[i][j] = D[IndexIn(XGrid, G[i])][IndexIn(TGrid, TO[j])]
           /\ \A skip \in {1, 5} :
                 LET XS == Sub4(XGrid, skip)  TS == Sub4(TGrid, skip)
                     DS == F([i \in 1..4 |-> [j \in 1..4 |-> D[IndexIn(XGrid, XS[i])][IndexIn(TGrid, TS[j])]]])
                 IN \A i \in 1..Len(G) : \A j \in 1..Len(TO) : Lag2(XS, TS, DS, G[i], TO[j]) = E[i][j]

\* ---- the observation as the call computes it (implementation shaped), on the grids where they LIE ----------
\* 'equal' = node for node; deviation: within a tolerance relative to the magnitude of the nodes
RelTol == <<1, 65536>>
QAbsLeq(a, b) == QSub(b, RAbs(a))[1] >= 0                                   \* |a| <= b
EqualImpl(X, G) ==
    IF DevEqualWithinTolerance
    THEN Len(X) = Len(G) /\ \A i \in 1..Len(X) : QAbsLeq(QSub(X[i], G[i]), QMul(RelTol, RAbs(G[i])))
    ELSE X = G
\* time class: restriction to the last level when the grids are equal and time_obs is the final time, otherwise the
\* interpolant of the data on X x T (through all nodes: it reproduces the polynomial data) at G x TO
ObsImplT(k) ==
    LET xf == XfSet[k.xf]
        X == AffSeq(xf, XGrid)  T == AffSeq(xf, TGrid)  G == AffSeq(xf, GObsSet[k.g])  TO == AffSeq(xf, TObsSet[k.t])
        D == DataT(k.c)
    IN IF EqualImpl(X, G) /\ EqualImpl(<<T[Len(T)]>>, TO)
       THEN F([i \in 1..Len(X) |-> << D[i][Len(T)] >>])
       ELSE F([i \in 1..Len(G) |-> [j \in 1..Len(TO) |-> Lag2(X, T, D, G[i], TO[j])]])
\* every observation is p(xi_obs, tau_obs) WHEREVER the grids lie: the staggered grid is interpolated, not restricted
TobsImplExact ==
    (Run("tobs") /\ XfRep(XfSet[pb.xf]) /\ (pb.xf # "id" \/ pb.g \in {"same", "stag", "shift5"})) => ObsImplT(pb) = ExpectT(pb)

TobsMapped(k) == k.g \in {"same", "sub", "shift"} /\ k.t \in TOld /\ k.xf = "id"
EmitTobs ==
    (Emit /\ Run("tobs")) =>
        PrintT("@@CASE " \o ToJson([kind |-> "tobs", c |-> pb.c, x |-> XGrid, T |-> TGrid, g |-> pb.g, t |-> pb.t, omap |-> pb.omap,
                                    gobs |-> GObsSet[pb.g], tobs |-> TObsSet[pb.t], data |-> DataT(pb.c),
                                    xf |-> pb.xf, xfm |-> XfSet[pb.xf],       \* the nodes are om 2^oe + 2^se x (x, T, gobs, tobs: reference nodes)
                                    order |-> OrderOf2(GObsSet[pb.g], TObsSet[pb.t]),
                                    \* shift5 (and the ORDER grids / times): the squares of the cubic data at quarter nodes exceed
                                    \* 32 bits - the replayer applies the map
                                    mapped |-> TobsMapped(pb),
                                    fwd |-> IF TobsMapped(pb) THEN MapRows(pb.omap, ExpectT(pb)) ELSE ExpectT(pb)]) \o " @@END")

\* steady class: quadratic interpolant, data of degree <= 2 on five nodes
Polys1 == { <<<<1>>, <<-2>>, <<3>>>>, <<<<0>>, <<1>>>> }
SobsCases == { [kind |-> "sobs", c |-> c, g |-> g, omap |-> mp, xf |-> "id"] : c \in Polys1, g \in GOld \cup GOrd \cup {"stag"}, mp \in {"id", "sq", "first"} }
             \cup { [kind |-> "sobs", c |-> Poly1X, g |-> g, omap |-> mp, xf |-> xf] : g \in XfGrids, mp \in {"id", "sq"}, xf \in XfNames }
DataS(c)   == F([i \in 1..Len(XGrid) |-> Poly2(c, XGrid[i], One)])
ExpectS(k) == F([i \in 1..Len(GObsSet[k.g]) |-> Poly2(k.c, GObsSet[k.g][i], One)])
SobsExact ==
    Run("sobs") =>
        LET D == DataS(pb.c)  E == ExpectS(pb)  G == GObsSet[pb.g]
        IN /\ \A i \in 1..Len(G) : IndexIn(XGrid, G[i]) # 0 => E[i] = D[IndexIn(XGrid, G[i])]
           /\ \A lo \in 1..3 :                                                           \* parabolas through nodes lo..lo+2
                 LET XS == [i \in 1..3 |-> XGrid[lo + i - 1]]  DS == [i \in 1..3 |-> D[lo + i - 1]]
                 IN \A i \in 1..Len(G) : Lagrange(XS, DS, G[i]) = E[i]
\* steady class as the call computes it: the nodal values when the grids are equal, otherwise the interpolant
ObsImplS(k) ==
    LET xf == XfSet[k.xf]  X == AffSeq(xf, XGrid)  G == AffSeq(xf, GObsSet[k.g])  D == DataS(k.c)
    IN IF EqualImpl(X, G) THEN D ELSE F([i \in 1..Len(G) |-> Lagrange(X, D, G[i])])
SobsImplExact ==
    (Run("sobs") /\ XfRep(XfSet[pb.xf])) => ObsImplS(pb) = ExpectS(pb)
\* interpolation commutes with the change of variable (any three / four consecutive nodes): the expected values, computed
\* in the reference variable, are the values of the interpolants on the grids where they lie
ObsAffine ==
    /\ (Run("sobs") /\ XfRep(XfSet[pb.xf])) =>
          LET xf == XfSet[pb.xf]  D == DataS(pb.c)  E == ExpectS(pb)  G == AffSeq(xf, GObsSet[pb.g])
          IN \A lo \in 1..3 :
                LET XS == AffSeq(xf, [i \in 1..3 |-> XGrid[lo + i - 1]])  DS == [i \in 1..3 |-> D[lo + i - 1]]
                IN \A i \in 1..Len(G) : Lagrange(XS, DS, G[i]) = E[i]
    /\ (Run("tobs") /\ pb.xf # "id" /\ XfRep(XfSet[pb.xf])) =>
          LET xf == XfSet[pb.xf]  D == DataT(pb.c)  E == ExpectT(pb)
              G == AffSeq(xf, GObsSet[pb.g])  TO == AffSeq(xf, TObsSet[pb.t])
          IN \A skip \in {1, 5} :
                LET XR == Sub4(XGrid, skip)  TR == Sub4(TGrid, skip)
                    DS == F([i \in 1..4 |-> [j \in 1..4 |-> D[IndexIn(XGrid, XR[i])][IndexIn(TGrid, TR[j])]]])
                IN \A i \in 1..Len(G) : \A j \in 1..Len(TO) : Lag2(AffSeq(xf, XR), AffSeq(xf, TR), DS, G[i], TO[j]) = E[i][j]
EmitSobs ==
    (Emit /\ Run("sobs")) =>
        PrintT("@@CASE " \o ToJson([kind |-> "sobs", c |-> pb.c, x |-> XGrid, g |-> pb.g, omap |-> pb.omap, gobs |-> GObsSet[pb.g],
                                    xf |-> pb.xf, xfm |-> XfSet[pb.xf],
                                    order |-> OrderOf(GObsSet[pb.g]),
                                    data |-> DataS(pb.c), fwd |-> ApplyMap(pb.omap, ExpectS(pb))]) \o " @@END")

(***************************************************************************)
(* sequences of calls on ONE PDE object (kinds "sseq", "tseq")             *)
(*                                                                         *)
(* The object is constructed (grid_sol = X0, grid_obs = go0 or None,       *)
(* time_obs = to0), assembled for th0 and solved; from there every         *)
(* behaviour of at most SeqDepth calls is explored.  All solution grids    *)
(* have the same number of nodes (the form does not depend on the grid, so *)
(* the nodal vector keeps its meaning), 3 nodes for the steady class and   *)
(* 4 nodes x 4 time levels for the time-dependent class: the quadratic     *)
(* spline through 3 nodes / the bicubic spline through 4 x 4 nodes has no  *)
(* interior knot and is THE interpolation polynomial, so the documented    *)
(* interpolation is exact Lagrange interpolation for every solution.       *)
(***************************************************************************)
SeqKinds == {"sseq", "tseq"}
IsSeq == ph = "run" /\ pb.kind \in SeqKinds

SeqMatS == CHOOSE m \in SteadyMats : m.n = 3 /\ m.A0 = Pois3
SeqMatT == CHOOSE m \in TimeMats : m.n = 4
SeqT    == << Zero, Q(1, 2), One, Two >>                       \* non-uniform time levels of the tseq object

\* solution grids (same length; X1 shares the first and last node - and the length - with X0)
SeqGridSolS == [X0 |-> << Zero, Q(1, 2), Two >>, X1 |-> << Zero, One, Two >>]
SeqGridSolT == [X0 |-> << Zero, Q(1, 2), One, Two >>, X1 |-> << Zero, Q(1, 2), Q(3, 2), Two >>]
\* observation grids: the two solution grids, coinciding nodes of both, points between the nodes;
\* X2 (mode "ginp" only): as many nodes as the solution grids, so that an array can be turned into it IN PLACE
\* mode "order": rev = X0 reversed, subu = unsorted sub-selection (nodes of X0 and of X1), rep = a node twice,
\* offu = points between the nodes of X0 in non-ascending order (One is a node of X1 / of X0), perm (time class) = X0 permuted
SeqGridObsS == [X0 |-> SeqGridSolS.X0, X1 |-> SeqGridSolS.X1, sub |-> << Zero, Two >>,
                off |-> << Q(1, 4), One, Q(3, 2), Q(7, 4) >>, X2 |-> << Q(1, 4), One, Q(7, 4) >>,
                rev |-> Rev(SeqGridSolS.X0), subu |-> << Two, Zero >>, rep |-> << Q(1, 2), Q(1, 2), Two >>,
                offu |-> << Q(7, 4), Q(1, 4), One >>, perm |-> << Q(1, 2), Two, Zero >>]
SeqGridObsT == [X0 |-> SeqGridSolT.X0, X1 |-> SeqGridSolT.X1, sub |-> << Q(1, 2), Two >>,
                off |-> << Q(1, 4), One, Q(7, 4) >>, X2 |-> << Q(1, 4), One, Q(3, 2), Q(7, 4) >>,
                rev |-> Rev(SeqGridSolT.X0), subu |-> << Two, Q(1, 2) >>, rep |-> << Q(1, 2), Q(1, 2), Two >>,
                offu |-> << Q(7, 4), Q(1, 4), One >>, perm |-> << One, Zero, Two, Q(1, 2) >>]
\* observation times: final / all / coinciding subset with the final time / between the levels / one between / one coinciding;
\* mode "order": all levels reversed, the final time first, a level twice, between the levels in non-ascending order
SeqTimeObs  == [final |-> << Two >>, all |-> SeqT, sub |-> << Q(1, 2), Two >>, shift |-> << Q(3, 4), Q(3, 2) >>,
                one |-> << Q(3, 2) >>, mid |-> << One >>,
                allrev |-> Rev(SeqT), subu |-> << Two, Q(1, 2) >>, rep |-> << Q(1, 2), Q(1, 2), Two >>,
                offu |-> << Q(3, 2), Q(3, 4) >>]

GridSolOf(p, k) == IF p.kind = "sseq" THEN SeqGridSolS[k] ELSE SeqGridSolT[k]
GridObsOf(p, k) == IF p.kind = "sseq" THEN SeqGridObsS[k] ELSE SeqGridObsT[k]
GridSolNames == {"X0", "X1"}
GridObsNames == IF Level < 2 THEN {"X0", "X1", "off"} ELSE {"X0", "X1", "sub", "off"}
TimeObsNames == IF Level < 2 THEN {"final", "all", "one"} ELSE {"final", "all", "sub", "shift", "one", "mid"}
\* mode "order": the grids / times the setters choose from
OrdGridNames == IF Level < 2 THEN {"X0", "rev", "subu", "rep", "offu"} ELSE {"X0", "X1", "rev", "perm", "subu", "rep", "offu"}
OrdTimeNames == IF Level < 2 THEN {"final", "allrev", "subu", "offu"} ELSE {"final", "all", "allrev", "subu", "rep", "offu"}
GridObsNamesOf(p) == IF p.mode = "order" THEN OrdGridNames ELSE GridObsNames \cup {"none"}
TimeObsNamesOf(p) == IF p.mode = "order" THEN OrdTimeNames ELSE TimeObsNames

\* initial objects <<grid_obs, time_obs, observation map>> (quick: grids equal from the start / different from the start)
SeqInitsS == { <<"none", "none", "id">>, <<"X1", "none", "sq">> }
             \cup (IF Level < 2 THEN {} ELSE { <<"off", "none", "first">>, <<"sub", "none", "id">>, <<"none", "none", "sq">> })
SeqInitsT == { <<"none", "final", "id">>, <<"off", "all", "sq">> }
             \cup (IF Level < 2 THEN {} ELSE { <<"X1", "final", "sq">>, <<"none", "one", "id">>, <<"off", "final", "id">> })
\* mode "param" (one observation time, so that PDEModel.forward is vector valued): interpolation + map / restriction
ParInitsS == { <<"off", "none", "sq">> } \cup (IF Level < 2 THEN {} ELSE { <<"none", "none", "id">> })
ParInitsT == { <<"none", "final", "id">> } \cup (IF Level < 2 THEN {} ELSE { <<"off", "one", "sq">> })
\* mode "ginp": explicit observation grids of the length of the solution grid: equal to it / different from the start
GinpInitsS == { <<"X0", "none", "id">>, <<"X1", "none", "sq">> }
GinpInitsT == { <<"X0", "final", "id">>, <<"X1", "one", "sq">> }
\* mode "order": constructed with an unsorted sub-selection / the reversed grid / the solution grid (set afterwards);
\* the map `first` (steady) returns the value at the FIRST observation node
OrdInitsS == { <<"subu", "none", "id">>, <<"rev", "none", "sq">>, <<"none", "none", "first">> }
             \cup (IF Level < 2 THEN {} ELSE { <<"offu", "none", "sq">>, <<"perm", "none", "first">> })
OrdInitsT == { <<"subu", "final", "id">>, <<"none", "allrev", "sq">> }
             \cup (IF Level < 2 THEN {} ELSE { <<"rev", "final", "sq">>, <<"offu", "subu", "id">>, <<"rep", "rep", "id">> })
\* via = "pde"  : the calls are made on the PDE object (assemble / solve / observe);
\* via = "model": the object is wrapped in a PDEModel and evaluated through PDEModel.forward, the setters act on
\*                model.pde between the forward evaluations
\* (mode "order": the solution for <<1, -1>> is symmetric, u_1 = u_3 - a reversed observation grid would not show; the
\* parameters of this mode have solutions with pairwise different nodal values, see SeqOrderVisible)
SeqProbS(mode, v, c) ==
    [kind |-> "sseq", mode |-> mode, via |-> v, m |-> SeqMatS,
     th0 |-> IF mode = "order" THEN <<2, 1>> ELSE <<1, -1>>, th1 |-> IF mode = "order" THEN <<0, 1>> ELSE <<2, 1>>, th2 |-> <<0, 2>>,
     go0 |-> c[1], to0 |-> c[2], omap |-> c[3], xf |-> "id"]
SeqProbT(mode, v, c) ==
    [kind |-> "tseq", mode |-> mode, via |-> v, m |-> SeqMatT, T |-> SeqT, method |-> "forward_euler",
     th0 |-> <<1, -1>>, th1 |-> <<0, 2>>, th2 |-> <<2, 1>>, go0 |-> c[1], to0 |-> c[2], omap |-> c[3], xf |-> "id"]
\* mode "grid" WHERE THE GRIDS LIE (field xf, see XfSet): the same objects and setter sequences (at most 3 calls) with every
\* grid - grid_sol, grid_obs, the time levels, time_obs, at construction and in every setter call - under the change of variable xf.
\* X0 / X1 (steady: they differ in ONE node by half a cell), off are then grids far from the origin / with tiny cells; the
\* expected values do not depend on xf (SeqObserveAffine)
SeqXfNames == IF Level < 2 THEN {"t10sm6", "t20sm10"} ELSE {"t10sm6", "t20sm10", "sm30"}
\* (quick: one change of variable per initial object)
SeqXfPick(c, x) == Level >= 2 \/ (x = "t20sm10") = (c[1] = "none")
SeqXfProbs(v) == { [SeqProbS("grid", v, d[1]) EXCEPT !.xf = d[2]] : d \in {e \in SeqInitsS \X SeqXfNames : SeqXfPick(e[1], e[2])} }
                 \cup { [SeqProbT("grid", v, d[1]) EXCEPT !.xf = d[2]] : d \in {e \in SeqInitsT \X SeqXfNames : SeqXfPick(e[1], e[2])} }
\* ---- mode "solve": the forms, time grids and problems ------------------------------------------------------
\* A(th, t) = A0 + t A1 + th[1] A2, f(th, t) = f0 + t f1 + Fth th, third component c0 + U0 th + (t - t_1) w.
\* th[1] >= 0 for the parameters of the mode and the symmetric part of A is negative definite for t, th[1] >= 0, so
\* I - dt A is regular for every step.  n = 1: boundary size, a SINGLE node.
SolveMats ==
    { [n |-> 1, A0 |-> <<<<-1>>>>, A1 |-> <<<<-1>>>>, A2 |-> <<<<-2>>>>, f0 |-> <<1>>, f1 |-> <<2>>, Fth |-> <<<<1, -1>>>>,
       c0 |-> <<2>>, U0 |-> <<<<1, 1>>>>, w |-> <<3>>, x |-> <<Q(1, 2)>>],
      [n |-> 2, A0 |-> <<<<-2, 1>>, <<1, -2>>>>, A1 |-> <<<<-1, 1>>, <<-1, 0>>>>, A2 |-> <<<<0, 1>>, <<-1, -1>>>>,
       f0 |-> <<1, 0>>, f1 |-> <<0, 1>>, Fth |-> <<<<1, 0>>, <<1, 1>>>>, c0 |-> <<1, -1>>, U0 |-> <<<<1, 0>>, <<1, 1>>>>,
       w |-> <<3, -5>>, x |-> <<Zero, One>>] }
\* ONE step, two, three (non-uniform); integer levels (the replayer may hand them over as an integer array)
SolveGrids == [one |-> << Zero, Q(1, 2) >>, two |-> << Q(1, 2), One, Two >>, three |-> << Zero, Q(1, 4), Q(1, 2), Q(3, 2) >>,
               ione |-> << One, R(3) >>, itwo |-> << Zero, One, R(3) >>]
\* (through the model without "three": the exact sensitivities of three backward Euler steps exceed 32 bits)
SolveGridNames(v, n) == IF Level >= 2 THEN (IF v = "pde" THEN {"one", "two", "three", "ione", "itwo"} ELSE {"one", "two", "ione", "itwo"})
                        ELSE IF v = "pde" THEN (IF n = 2 THEN {"one", "two", "three", "ione"} ELSE {"one", "two", "itwo"})
                        ELSE (IF n = 2 THEN {"one", "two"} ELSE {"one", "ione"})
SolveProbs(v) ==
    UNION { { [kind |-> "tseq", mode |-> "solve", via |-> v, m |-> m, T |-> SolveGrids[g], tg |-> g, method |-> me,
               th0 |-> <<1, -1>>, th1 |-> <<0, 2>>, th2 |-> <<2, 1>>, go0 |-> "none", to0 |-> "final",
               omap |-> IF m.n = 2 THEN "sq" ELSE "id", xf |-> "id"] : g \in SolveGridNames(v, m.n), me \in {"forward_euler", "backward_euler"} }
            : m \in SolveMats }

SeqProblems ==
    UNION { { SeqProbS("grid", v, c) : c \in SeqInitsS } \cup { SeqProbT("grid", v, c) : c \in SeqInitsT }
            \cup { SeqProbS("param", v, c) : c \in ParInitsS } \cup { SeqProbT("param", v, c) : c \in ParInitsT }
            \cup { SeqProbS("ginp", v, c) : c \in GinpInitsS } \cup { SeqProbT("ginp", v, c) : c \in GinpInitsT }
            \cup { SeqProbS("order", v, c) : c \in OrdInitsS } \cup { SeqProbT("order", v, c) : c \in OrdInitsT }
            \cup (IF SolveDepth > 0 THEN SolveProbs(v) ELSE {})
            \cup SeqXfProbs(v)
            : v \in {"pde", "model"} }
DepthOf(p) == CASE p.mode = "grid" -> (IF p.xf = "id" \/ SeqDepth < 3 THEN SeqDepth ELSE 3) [] p.mode = "param" -> ParDepth [] p.mode = "ginp" -> GinpDepth [] p.mode = "order" -> OrdDepth
                [] p.mode = "solve" -> (IF p.via = "pde" THEN SolveDepth ELSE SolveDepth - 2)

\* ---- Solve ---------------------------------------------------------------
\* time levels 1..k of the documented recurrence (the same EulerStep as the action Step of kind "time")
RECURSIVE Levels(_, _, _)
Levels(p, th, k) ==
    IF k = 1 THEN << ICForm(p.m, th, p.T, p.T[1]) >>
    ELSE LET prev == Levels(p, th, k - 1)
             ta   == IF p.method = "forward_euler" THEN p.T[k - 1] ELSE p.T[k]
         IN Append(prev, EulerStep(p.m, th, p.method, ta, QSub(p.T[k], p.T[k - 1]), prev[k - 1]))
\* steady: the nodal vector u; time: the sequence of levels u_1 .. u_nt (sol[j][i] = level j, node i)
\* ---- mode "solve": solve() as the sequence of its assemble_step calls -----------------------------------------
APar(m, th, t)     == QMAdd(QMAdd(IM(m.A0), QMScale(t, IM(m.A1))), QMScale(R(th[1]), IM(m.A2)))
FPar(m, th, t)     == QVAdd(QVAdd(IV(m.f0), QVScale(t, IV(m.f1))), QMV(IM(m.Fth), IV(th)))
ICPar(m, th, T, t) == QVAdd(QVAdd(IV(m.c0), QMV(IM(m.U0), IV(th))), QVScale(QSub(t, T[1]), IV(m.w)))
\* the step system <<diff_op, rhs, initial_condition>> the object holds = the <<time, parameter>> the form was evaluated
\* at last; nothing before the first solve
NoSys == [t |-> <<0, 0>>, th |-> <<>>]
\* assemble_step(t) for the assembled parameter par: evaluates the form at (par, t).  Deviation: returns early when the
\* system it holds was assembled at the same time - whatever parameter that was for
AsmStep(sys, par, t) == IF DevStaleStepSystem /\ sys.t = t THEN sys ELSE [t |-> t, th |-> par]
SvAsmTime(p, k) == IF p.method = "forward_euler" THEN p.T[k] ELSE p.T[k + 1]       \* documented time level of step k -> k + 1
SvEuler(p, sys, dt, u) ==
    LET A == APar(p.m, sys.th, sys.t)  f == FPar(p.m, sys.th, sys.t)
    IN IF p.method = "forward_euler"
       THEN F(QVAdd(QMV(QMAdd(MId(p.m.n), QMScale(dt, A)), u), QVScale(dt, f)))
       ELSE F(QSolve(QMSub(MId(p.m.n), QMScale(dt, A)), QVAdd(u, QVScale(dt, f))))
RECURSIVE SvFrom(_, _, _, _, _)
SvFrom(p, par, k, lv, sys) ==
    IF k = Len(p.T) THEN [lv |-> lv, sys |-> sys]
    ELSE LET s1 == AsmStep(sys, par, SvAsmTime(p, k))
         IN SvFrom(p, par, k + 1, Append(lv, SvEuler(p, s1, QSub(p.T[k + 1], p.T[k]), lv[k])), s1)
\* solve(): assemble_step(t_1), the initial condition is the third component of THAT system, then one assemble_step per step
SvSolve(p, par, sys) ==
    LET s0 == AsmStep(sys, par, p.T[1])
    IN SvFrom(p, par, 1, << ICPar(p.m, s0.th, p.T, s0.t) >>, s0)
\* exact derivative of the levels with respect to th[kk] (the differentiated recurrence, for the Jacobian of PDEModel)
SvAk(m, kk) == IF kk = 1 THEN IM(m.A2) ELSE F([i \in 1..m.n |-> [j \in 1..m.n |-> Zero]])
RECURSIVE SvSensFrom(_, _, _, _, _, _)
SvSensFrom(p, th, kk, lv, k, dl) ==
    IF k = Len(p.T) THEN dl
    ELSE LET ta == SvAsmTime(p, k)  dt == QSub(p.T[k + 1], p.T[k])  A == APar(p.m, th, ta)
             fk == MCol(IM(p.m.Fth), kk)
             d1 == IF p.method = "forward_euler"
                   THEN F(QVAdd(QVAdd(dl[k], QVScale(dt, QMV(A, dl[k]))), QVScale(dt, QVAdd(QMV(SvAk(p.m, kk), lv[k]), fk))))
                   ELSE F(QSolve(QMSub(MId(p.m.n), QMScale(dt, A)),
                                 QVAdd(dl[k], QVScale(dt, QVAdd(QMV(SvAk(p.m, kk), lv[k + 1]), fk)))))
         IN SvSensFrom(p, th, kk, lv, k + 1, Append(dl, d1))
SvSens(p, th, kk) == SvSensFrom(p, th, kk, SvSolve(p, th, NoSys).lv, 1, << MCol(IM(p.m.U0), kk) >>)
\* Jacobian of the last level: column kk (PDEModel.forward = map o last level; the derivative of the elementwise map is
\* applied by the replayer - its products exceed 32 bits)
SvJac(p, th) == F([kk \in 1..2 |-> SvSens(p, th, kk)[Len(p.T)]])

SeqSolution(p, th) == IF p.kind = "sseq" THEN QSolve(AOf(p.m, th), FOf(p.m, th))
                      ELSE IF p.mode = "solve" THEN SvSolve(p, th, NoSys).lv
                      ELSE F(Levels(p, th, Len(p.T)))

\* ---- Observe -------------------------------------------------------------
\* tensor-product Lagrange interpolation (= Lag2) of the levels sol[b][a] (level b, node a) on X x T at all points G x TO,
\* with the basis values computed once per observation node / time
InterpT(X, T, sol, G, TO) ==
    LET BX == F([i \in 1..Len(G) |-> [a \in 1..Len(X) |-> LagBasis(X, a, G[i])]])
        BT == F([j \in 1..Len(TO) |-> [b \in 1..Len(T) |-> LagBasis(T, b, TO[j])]])
        \* first in space: W[i][b] = value at observation node i on level b
        W  == F([i \in 1..Len(G) |-> [b \in 1..Len(T) |-> QSumSeq([a \in 1..Len(X) |-> QMul(BX[i][a], sol[b][a])])]])
    IN F([i \in 1..Len(G) |-> [j \in 1..Len(TO) |-> QSumSeq([b \in 1..Len(T) |-> QMul(BT[j][b], W[i][b])])]])
\* (1) what the property demands, from the CURRENT grid_sol / grid_obs / time_obs only: the stored value at a
\*     coinciding node (and time), the value of the interpolation polynomial elsewhere
ObsNow(p, o) ==
    IF p.kind = "sseq"
    THEN F([i \in 1..Len(o.go) |-> IF IndexIn(o.gs, o.go[i]) # 0 THEN o.sol[IndexIn(o.gs, o.go[i])]
                                   ELSE Lagrange(o.gs, o.sol, o.go[i])])
    ELSE LET V == InterpT(o.gs, p.T, o.sol, o.go, o.to)
         IN F([i \in 1..Len(o.go) |-> [j \in 1..Len(o.to) |->
                  IF IndexIn(o.gs, o.go[i]) # 0 /\ IndexIn(p.T, o.to[j]) # 0
                  THEN o.sol[IndexIn(p.T, o.to[j])][IndexIn(o.gs, o.go[i])]
                  ELSE V[i][j]]])
\* (2) what the call does (implementation shaped): it branches on the CACHED equality flag; the interpolant is evaluated
\*     at go[1], go[2], ... (and to[1], to[2], ...) in THIS order.  Deviation ObserveInSolutionOrder: observation nodes that
\*     are all solution nodes are read off with the mask of these solution nodes (solution-grid order)
ObserveBy(p, o) ==
    IF p.kind = "sseq"
    THEN IF o.eq THEN o.sol
         ELSE IF DevObserveInSolutionOrder /\ MaskOk(o.gs, o.go) THEN MaskPick(o.gs, o.sol, o.go)
         ELSE F([i \in 1..Len(o.go) |-> Lagrange(o.gs, o.sol, o.go[i])])
    ELSE IF o.eq /\ o.to = << p.T[Len(p.T)] >>
         THEN F([i \in 1..p.m.n |-> << o.sol[Len(p.T)][i] >>])                                \* last level, no interpolation
         ELSE IF DevObserveInSolutionOrder /\ MaskOk(o.gs, o.go) /\ o.to = << p.T[Len(p.T)] >>
         THEN LET M == MaskSeq(o.gs, o.go) IN F([k \in 1..Len(o.go) |-> << o.sol[Len(p.T)][M[k]] >>])
         ELSE InterpT(o.gs, p.T, o.sol, o.go, o.to)
\* class of the current observation grid (and times): "asc" / "repeated" / "unsorted"
OrderNow(p, o) == IF p.kind = "sseq" THEN OrderOf(o.go) ELSE OrderOf2(o.go, o.to)
\* restriction is due everywhere (the harness compares exactly there)
ExactNow(p, o) == o.go = o.gs /\ (p.kind = "tseq" => o.to = << p.T[Len(p.T)] >>)
\* steady: the observation map is applied here; time: by the replayer (squares of these rationals exceed 32 bits)
MappedObs(p, v) == IF p.kind = "sseq" THEN ApplyMap(p.omap, v) ELSE <<>>

\* ---- the object ------------------------------------------------------------
\* gs, go, to : the grids / times of the object = the values at the last hand-over (constructor, setter)
\* live       : mode "ginp": the CURRENT values of the user's arrays that were handed over (same identity)
\* heap       : mode "param": the CURRENT values of the user's parameter arrays P and Q
\* want       : the value the supplied parameter array had at the last assemble / forward call
\* parobj     : the IDENTITY of the array assembled last ("fresh": an array nobody else holds, e.g. a copy)
\* par        : the value the assembled system belongs to (implementation shaped: see DevAssembleSkipsSameObject)
SeqNew(p) ==
    LET gs == IF p.mode = "solve" THEN p.m.x ELSE GridSolOf(p, "X0")
        go == IF p.go0 = "none" THEN gs ELSE GridObsOf(p, p.go0)
        to == IF p.mode = "solve" THEN << p.T[Len(p.T)] >> ELSE IF p.kind = "tseq" THEN SeqTimeObs[p.to0] ELSE <<>>
    IN [gs |-> gs, go |-> go,
        \* mode "solve": the step system the object holds after construct - assemble(th0) - solve
        asm |-> IF p.mode = "solve" THEN SvSolve(p, p.th0, NoSys).sys ELSE NoSys,
        godef |-> p.go0 = "none",                  \* grid_obs was given as None (it IS grid_sol)
        to |-> to,
        eq |-> go = gs,                            \* cached decision "no interpolation in space"
        live |-> [gs |-> gs, go |-> go, to |-> to],
        heap |-> [P |-> p.th0, Q |-> p.th1],
        want |-> p.th0, parobj |-> IF p.mode = "param" THEN "P" ELSE "fresh",
        par |-> p.th0, solpar |-> p.th0, sol |-> SeqSolution(p, p.th0)]

\* slots whose array has been modified in place since it was handed over
Slots == {"gs", "go", "to"}
Stale(o) == {s \in Slots : o.live[s] # o[s]}

Setters  == {"set_grid_obs", "set_grid_sol", "set_time_obs"}
Changers == Setters \cup {"mutate_grid", "reassign"}
UseActs  == {"pipeline", "forward"}
ObsActs  == {"observe", "forward", "pipeline"}
CountOf(S) == Cardinality({i \in 1..Len(hist) : hist[i].a \in S})
LastIs(S)  == hist # <<>> /\ hist[Len(hist)].a \in S
\* Solve follows Assemble immediately
SeqCan     == IsSeq /\ Len(hist) < DepthOf(pb) /\ ~LastIs({"assemble"})
\* history entry: the call, its argument, the value it sets / returns, the abstract state after it;
\* defined = FALSE: an array handed over as a grid has been modified in place and not handed over again - the value of
\* an observation is not specified (obs: for the grids as handed over, obslive: for the current values of the arrays)
Entry(a, arg, val, obs, o) ==
    [a |-> a, arg |-> arg, val |-> val, obs |-> obs, fwd |-> IF obs = <<>> THEN <<>> ELSE MappedObs(pb, obs),
     exact |-> ExactNow(pb, o), order |-> OrderNow(pb, o), gs |-> o.gs, go |-> o.go, godef |-> o.godef, to |-> o.to, par |-> o.par,
     heap |-> o.heap, live |-> o.live, defined |-> (pb.mode # "ginp" \/ Stale(o) = {}),
     obslive |-> IF pb.mode # "ginp" \/ obs = <<>> \/ Stale(o) = {} THEN <<>>
                 ELSE ObsNow(pb, [o EXCEPT !.gs = o.live.gs, !.go = o.live.go, !.to = o.live.to])]
SeqFrame == UNCHANGED <<pb, ph, st, traj, calls>>

\* pde.grid_obs = G   (None: the solution grid) - a NEW array
SetGridObs(k) ==
    /\ SeqCan /\ pb.mode \in {"grid", "order"} /\ CountOf(Setters) < SeqSetters
    /\ k \in GridObsNamesOf(pb)
    /\ LET g == IF k = "none" THEN obj.gs ELSE GridObsOf(pb, k)
           o == [obj EXCEPT !.go = g, !.godef = (k = "none"), !.live.go = g,
                            !.eq = IF DevStaleGridFlag THEN obj.eq ELSE (g = obj.gs)]
       IN /\ (g # obj.go \/ (obj.godef /\ k # "none"))                  \* not a call that changes nothing
          /\ obj' = o
          /\ hist' = Append(hist, Entry("set_grid_obs", k, g, <<>>, o))
    /\ SeqFrame

\* pde.grid_sol = X.  Only with an EXPLICIT observation grid: whether a grid_obs given as None follows a later
\* change of grid_sol is not documented, so the specification is silent there.
SetGridSol(k) ==
    /\ SeqCan /\ pb.mode \in {"grid", "order"} /\ CountOf(Setters) < SeqSetters
    /\ ~obj.godef
    /\ GridSolOf(pb, k) # obj.gs
    /\ LET o == [obj EXCEPT !.gs = GridSolOf(pb, k), !.live.gs = GridSolOf(pb, k), !.eq = (obj.go = GridSolOf(pb, k))]
       IN /\ obj' = o
          /\ hist' = Append(hist, Entry("set_grid_sol", k, o.gs, <<>>, o))
    /\ SeqFrame

\* time_obs = times (time-dependent class)
SetTimeObs(k) ==
    /\ SeqCan /\ pb.mode \in {"grid", "order"} /\ CountOf(Setters) < SeqSetters
    /\ pb.kind = "tseq"
    /\ k \in TimeObsNamesOf(pb)
    /\ SeqTimeObs[k] # obj.to
    /\ LET o == [obj EXCEPT !.to = SeqTimeObs[k], !.live.to = SeqTimeObs[k]]
       IN /\ obj' = o
          /\ hist' = Append(hist, Entry("set_time_obs", k, o.to, <<>>, o))
    /\ SeqFrame

\* pde.assemble(th) for another parameter, a NEW array (the last solution stays the one of the previous parameter until Solve)
Assemble(th) ==
    /\ SeqCan /\ pb.mode = "grid" /\ pb.via = "pde" /\ CountOf({"assemble"}) < Level
    /\ th \in {pb.th0, pb.th1} /\ th # obj.par
    /\ LET o == [obj EXCEPT !.par = th, !.want = th, !.parobj = "fresh"]
       IN /\ obj' = o
          /\ hist' = Append(hist, Entry("assemble", "", IF pb.kind = "sseq" THEN [th |-> th, A |-> AOf(pb.m, th), f |-> FOf(pb.m, th)]
                                                        ELSE [th |-> th], <<>>, o))
    /\ SeqFrame

\* pde.solve() after a new assembly
Solve ==
    /\ IsSeq /\ Len(hist) < DepthOf(pb) /\ pb.via = "pde" /\ pb.mode # "solve"
    /\ obj.par # obj.solpar
    /\ LET o == [obj EXCEPT !.sol = SeqSolution(pb, obj.par), !.solpar = obj.par]
       IN /\ obj' = o
          /\ hist' = Append(hist, Entry("solve", "", o.sol, <<>>, o))
    /\ SeqFrame

\* pde.observe(last solution)
Observe ==
    /\ SeqCan /\ pb.mode \in {"grid", "ginp", "order"} /\ pb.via = "pde"
    /\ ~LastIs({"observe"})
    /\ hist' = Append(hist, Entry("observe", "", <<>>, ObserveBy(pb, obj), obj))
    /\ UNCHANGED obj
    /\ SeqFrame

\* PDEModel(pde).forward(th) = Observe(Solve(Assemble(th))) on the same object, th a NEW array
Forward(th) ==
    /\ SeqCan /\ pb.mode \in {"grid", "ginp", "order"} /\ pb.via = "model"
    /\ CountOf({"forward"}) < (IF pb.mode = "ginp" THEN 3 ELSE 2)
    /\ th \in {pb.th0, pb.th1}
    /\ ((~LastIs(Changers) \/ pb.mode = "ginp") => th # obj.solpar)       \* not a call that changes nothing (ginp: alternate)
    /\ (pb.mode = "ginp" => ~LastIs({"forward"}))
    /\ LET o == [obj EXCEPT !.par = th, !.want = th, !.parobj = "fresh", !.solpar = th, !.sol = SeqSolution(pb, th)]
       IN /\ obj' = o
          /\ hist' = Append(hist, Entry("forward", "", [th |-> th, sol |-> o.sol], ObserveBy(pb, o), o))
    /\ SeqFrame

SeqThetas == { <<1, -1>>, <<2, 1>>, <<0, 2>>, <<0, 1>> }        \* the parameters th0, th1, th2 of the two classes (and th1 of mode "order")

\* ---- mode "param": parameter arrays with an identity ------------------------
ParObjs   == {"P", "Q"}
\* the array itself / a copy of it (equal value, another identity)
ArgNames  == {"P", "Pcopy", "Q"}
ArgObj(a)    == IF a \in {"P", "Pcopy"} THEN "P" ELSE "Q"
ArgIsCopy(a) == a \in {"Pcopy", "Qcopy"}
\* the array o has been supplied to the object before (P: at construct - assemble - solve)
Supplied(o) == o = "P" \/ \E i \in 1..Len(hist) : hist[i].a \in UseActs /\ hist[i].arg = o

\* o[...] = th : the user modifies the array IN PLACE (same identity, new value); no call on the PDE object
MutateParam(o, th) ==
    /\ SeqCan /\ pb.mode = "param" /\ CountOf({"mutate_param"}) < ParMutations
    /\ th \in (IF Level < 2 THEN {pb.th0, pb.th2} ELSE {pb.th0, pb.th1, pb.th2}) /\ th # obj.heap[o]
    /\ Supplied(o)
    /\ ~(LastIs({"mutate_param"}) /\ hist[Len(hist)].arg = o)
    /\ LET o1 == [obj EXCEPT !.heap[o] = th]
       IN /\ obj' = o1
          /\ hist' = Append(hist, Entry("mutate_param", o, th, <<>>, o1))
    /\ SeqFrame

\* via = "pde": pde.assemble(a), pde.solve(), pde.observe(solution) ("pipeline");  via = "model": PDEModel.forward(a).
\* The parameter is the CURRENT value of the array; the deviation keeps the old system for the same identity.
Use(a) ==
    /\ SeqCan /\ pb.mode = "param"
    /\ LET ob   == ArgObj(a)
           th   == obj.heap[ob]
           skip == DevAssembleSkipsSameObject /\ ~ArgIsCopy(a) /\ obj.parobj = ob
           par1 == IF skip THEN obj.par ELSE th
           o    == [obj EXCEPT !.want = th, !.parobj = IF ArgIsCopy(a) THEN "fresh" ELSE ob,
                               !.par = par1, !.solpar = par1, !.sol = SeqSolution(pb, par1)]
           val  == IF pb.kind = "sseq" THEN [th |-> th, A |-> AOf(pb.m, par1), f |-> FOf(pb.m, par1), sol |-> o.sol]
                   ELSE [th |-> th, sol |-> o.sol]
       IN /\ obj' = o
          /\ hist' = Append(hist, Entry(IF pb.via = "pde" THEN "pipeline" ELSE "forward", a, val, ObserveBy(pb, o), o))
    /\ SeqFrame

\* ---- mode "ginp": grid arrays with an identity ------------------------------
GinpVals(p, slot) ==
    CASE slot = "go" -> {GridObsOf(p, "X0"), GridObsOf(p, "X1"), GridObsOf(p, "X2")}
      [] slot = "gs" -> {GridSolOf(p, "X0"), GridSolOf(p, "X1")}
      [] slot = "to" -> IF p.kind = "tseq" /\ Level >= 2 THEN {SeqTimeObs.final, SeqTimeObs.one, SeqTimeObs.mid} ELSE {}
GinpAllVals == UNION {GinpVals(p, s) : p \in SeqProblems, s \in Slots}

\* g[:] = v : the user modifies an array that was handed over as a grid IN PLACE (no call on the PDE object)
MutateGrid(slot, v) ==
    /\ SeqCan /\ pb.mode = "ginp" /\ CountOf({"mutate_grid"}) < SeqSetters
    /\ v \in GinpVals(pb, slot) /\ v # obj.live[slot] /\ Len(v) = Len(obj.live[slot])
    /\ LET o == [obj EXCEPT !.live[slot] = v]
       IN /\ obj' = o
          /\ hist' = Append(hist, Entry("mutate_grid", slot, v, <<>>, o))
    /\ SeqFrame

\* pde.grid_obs = g / pde.grid_sol = g with the SAME (modified) array; time_obs has no setter: a new object is
\* constructed with the same three arrays (so all three are handed over again)
Reassign(slot) ==
    /\ SeqCan /\ pb.mode = "ginp" /\ slot \in Stale(obj)
    /\ LET o1 == CASE slot = "go" -> [obj EXCEPT !.go = obj.live.go]
                   [] slot = "gs" -> [obj EXCEPT !.gs = obj.live.gs]
                   [] slot = "to" -> [obj EXCEPT !.go = obj.live.go, !.gs = obj.live.gs, !.to = obj.live.to]
           o  == [o1 EXCEPT !.eq = IF DevSetterSkipsSameObject /\ slot # "to" THEN obj.eq ELSE (o1.go = o1.gs)]
       IN /\ obj' = o
          /\ hist' = Append(hist, Entry("reassign", slot, o[slot], <<>>, o))
    /\ SeqFrame

\* ---- mode "solve": several parameters through one time-dependent object -----------------------------------
SvThetas == IF Level < 2 THEN {pb.th0, pb.th1} ELSE {pb.th0, pb.th1, pb.th2}
\* pde.assemble(th) - stores the parameter; the step system the object holds stays what it is
SvAssemble(th) ==
    /\ SeqCan /\ pb.mode = "solve" /\ pb.via = "pde"
    /\ th \in SvThetas /\ th # obj.par
    /\ LET o == [obj EXCEPT !.par = th, !.want = th, !.parobj = "fresh"]
       IN /\ obj' = o
          /\ hist' = Append(hist, Entry("assemble", "", [th |-> th], <<>>, o))
    /\ SeqFrame
\* pde.solve() (after a new assemble, or once more for the same parameter) followed by pde.observe(solution)
SvSolveAct ==
    /\ IsSeq /\ Len(hist) < DepthOf(pb) /\ pb.mode = "solve" /\ pb.via = "pde"
    /\ (LastIs({"assemble"}) \/ CountOf({"solve"}) = CountOf({"assemble"}))          \* at most one solve without a new assemble
    /\ LET r == SvSolve(pb, obj.par, obj.asm)
           o == [obj EXCEPT !.sol = r.lv, !.solpar = obj.par, !.asm = r.sys]
       IN /\ obj' = o
          /\ hist' = Append(hist, Entry("solve", IF LastIs({"assemble"}) THEN "" ELSE "again", [th |-> obj.par, sol |-> r.lv], ObserveBy(pb, o), o))
    /\ SeqFrame
\* PDEModel.forward(th): th another parameter, or (once) the same again
SvForward(th) ==
    /\ SeqCan /\ pb.mode = "solve" /\ pb.via = "model"
    /\ th \in SvThetas
    /\ (th = obj.par => (LastIs({"forward"}) /\ \A i \in 1..Len(hist) : ~(hist[i].a = "forward" /\ hist[i].arg = "again")))
    /\ LET r == SvSolve(pb, th, obj.asm)
           o == [obj EXCEPT !.par = th, !.want = th, !.parobj = "fresh", !.solpar = th, !.sol = r.lv, !.asm = r.sys]
       IN /\ obj' = o
          /\ hist' = Append(hist, Entry("forward", IF th = obj.par THEN "again" ELSE "", [th |-> th, sol |-> r.lv], ObserveBy(pb, o), o))
    /\ SeqFrame
\* PDEModel.gradient(direction, th) with the Jacobian of the pipeline supplied: no call on the PDE object, answered with the
\* Jacobian AT th - which need not be the parameter of the last forward evaluation
SvGradient(th) ==
    /\ SeqCan /\ pb.mode = "solve" /\ pb.via = "model"
    /\ th \in {pb.th0, pb.th1} /\ LastIs({"forward"}) /\ CountOf({"gradient"}) < 2
    /\ hist' = Append(hist, Entry("gradient", "", [th |-> th, jac |-> SvJac(pb, th), u |-> SvSolve(pb, th, NoSys).lv[Len(pb.T)]], <<>>, obj))
    /\ UNCHANGED obj
    /\ SeqFrame

\* ---- invariants ------------------------------------------------------------
\* mode "solve": after every Solve / Forward the stored levels satisfy the documented recurrence FROM THE INITIAL CONDITION
\* FOR THE PARAMETER ASSEMBLED LAST (a different algebraic form than the one SvEuler computes with), the call returned
\* these levels, and the observation is the last level
SeqSolveCurrent ==
    (IsSeq /\ pb.mode = "solve" /\ (hist = <<>> \/ LastIs({"solve", "forward"}))) =>
        LET th == obj.par  u == obj.sol
        IN /\ obj.solpar = th /\ Len(u) = Len(pb.T)
           /\ (hist # <<>> => hist[Len(hist)].val.sol = u /\ hist[Len(hist)].val.th = th
                               /\ hist[Len(hist)].obs = F([i \in 1..pb.m.n |-> << u[Len(pb.T)][i] >>]))
           /\ u[1] = QVAdd(IV(pb.m.c0), QMV(IM(pb.m.U0), IV(th)))
           /\ \A i \in 1..(Len(pb.T) - 1) :
                 LET dt == QSub(pb.T[i + 1], pb.T[i])
                     tl == IF pb.method = "forward_euler" THEN pb.T[i] ELSE pb.T[i + 1]
                     ua == IF pb.method = "forward_euler" THEN u[i] ELSE u[i + 1]
                 IN QVSub(u[i + 1], u[i]) = QVScale(dt, QVAdd(QMV(APar(pb.m, th, tl), ua), FPar(pb.m, th, tl)))
\* the Jacobian a Gradient call is answered with satisfies the differentiated recurrence at the parameter of THAT call
SeqSensCurrent ==
    (IsSeq /\ pb.mode = "solve" /\ LastIs({"gradient"})) =>
        LET th == hist[Len(hist)].val.th  u == SvSolve(pb, th, NoSys).lv  nt == Len(pb.T)
        IN \A kk \in 1..2 :
              LET d == SvSens(pb, th, kk)
              IN /\ d[1] = MCol(IM(pb.m.U0), kk)
                 /\ \A i \in 1..(nt - 1) :
                       LET dt == QSub(pb.T[i + 1], pb.T[i])
                           tl == IF pb.method = "forward_euler" THEN pb.T[i] ELSE pb.T[i + 1]
                           a  == IF pb.method = "forward_euler" THEN i ELSE i + 1
                       IN QVSub(d[i + 1], d[i]) = QVScale(dt, QVAdd(QVAdd(QMV(APar(pb.m, th, tl), d[a]), QMV(SvAk(pb.m, kk), u[a])),
                                                                  MCol(IM(pb.m.Fth), kk)))
                 /\ hist[Len(hist)].val.jac[kk] = d[nt] /\ hist[Len(hist)].val.u = u[nt]
\* every Observe / Forward returns the observation for the CURRENT grids and times (the grids handed over last; silent
\* while an array handed over has been modified in place and not handed over again): entry i (row i, column j) is the value
\* at the node grid_obs[i] (and the time time_obs[j]) - ObsNow looks every node / time up, whatever their order
SeqObserveCurrent ==
    (IsSeq /\ LastIs(ObsActs) /\ (pb.mode = "ginp" => Stale(obj) = {})) => hist[Len(hist)].obs = ObsNow(pb, obj)
\* WHERE the grids lie: the observation for the grids / times under the change of variable xf is the observation for the
\* reference grids (for the changes of variable whose nodes fit 32-bit rationals; the interpolant commutes with it)
SeqObserveAffine ==
    (IsSeq /\ pb.xf # "id" /\ XfRep(XfSet[pb.xf]) /\ LastIs(ObsActs)) =>
        LET xf == XfSet[pb.xf]
            pX == IF pb.kind = "tseq" THEN [pb EXCEPT !.T = AffSeq(xf, pb.T)] ELSE pb
            oX == [obj EXCEPT !.gs = AffSeq(xf, obj.gs), !.go = AffSeq(xf, obj.go), !.to = AffSeq(xf, obj.to)]
        IN ObsNow(pX, oX) = hist[Len(hist)].obs
\* mode "order": an observation in another order IS another observation - the nodal values of the current solution are
\* pairwise different (time class: on the final level, and no two levels are equal)
SeqOrderVisible ==
    (IsSeq /\ pb.mode = "order") =>
        /\ ~HasRepeat(obj.sol)
        /\ (pb.kind = "tseq" => ~HasRepeat(obj.sol[Len(pb.T)]))
\* the cached decision is the one for the current grids after every call
SeqFlagFresh == IsSeq => obj.eq = (obj.go = obj.gs)
\* the last solution solves the discrete problem of the parameter it was assembled for; after Solve / Forward that is
\* the parameter assembled last
SeqSolutionCurrent ==
    (IsSeq /\ pb.mode # "solve" /\ (hist = <<>> \/ LastIs({"solve", "forward", "pipeline"}))) =>
        /\ obj.solpar = obj.par
        /\ IF pb.kind = "sseq" THEN QMV(AOf(pb.m, obj.solpar), obj.sol) = FOf(pb.m, obj.solpar)
           ELSE /\ obj.sol[1] = QVAdd(IV(pb.m.c0), QMV(IM(pb.m.U0), IV(obj.solpar)))
                /\ \A i \in 1..(Len(pb.T) - 1) :
                      LET dt == QSub(pb.T[i + 1], pb.T[i])
                          tl == IF pb.method = "forward_euler" THEN pb.T[i] ELSE pb.T[i + 1]
                          ua == IF pb.method = "forward_euler" THEN obj.sol[i] ELSE obj.sol[i + 1]
                      IN QVSub(obj.sol[i + 1], obj.sol[i]) = QVScale(dt, QVAdd(QMV(ATime(pb.m, tl), ua), FTime(pb.m, obj.solpar, tl)))
\* the assembled system, the solution and the observation belong to the CURRENT VALUE of the supplied parameter array -
\* whatever the identity of the array and whatever was assembled before
SeqParamCurrent ==
    /\ (IsSeq /\ LastIs({"assemble", "forward", "pipeline"})) => obj.par = obj.want
    /\ (IsSeq /\ pb.mode = "param" /\ LastIs(UseActs)) =>
          LET e  == hist[Len(hist)]
              th == obj.heap[ArgObj(e.arg)]
              u  == SeqSolution(pb, th)
          IN /\ obj.par = th /\ obj.solpar = th /\ e.val.th = th
             /\ e.val.sol = u /\ obj.sol = u
             /\ (pb.kind = "sseq" => e.val.A = AOf(pb.m, th) /\ e.val.f = FOf(pb.m, th))
             \* (the observation returned by the call is the observation of obj.sol = u: SeqObserveCurrent)
\* equal parameter values give equal results: a copy and the array itself; f(th1) . f(th2) . f(th1): third = first
SeqSameParamSameValue ==
    (IsSeq /\ pb.mode = "param") =>
        \A i, j \in 1..Len(hist) :
            (hist[i].a \in UseActs /\ hist[j].a \in UseActs) =>
                (hist[i].val.th = hist[j].val.th => hist[i].obs = hist[j].obs /\ hist[i].val.sol = hist[j].val.sol)
\* no call but the user's own in-place modification changes an array of the user (parameters and grids)
SeqArgsUntouched ==
    IsSeq => \A i \in 1..Len(hist) :
                LET heap0 == IF i = 1 THEN [P |-> pb.th0, Q |-> pb.th1] ELSE hist[i - 1].heap
                IN /\ (hist[i].a # "mutate_param" => hist[i].heap = heap0)
                   /\ ((hist[i].a \notin Changers /\ i > 1) => hist[i].live = hist[i - 1].live)
\* the bounds of the behaviours
SeqBounds == IsSeq => /\ Len(hist) <= DepthOf(pb) /\ CountOf(Setters \cup {"mutate_grid"}) <= SeqSetters
                      /\ CountOf({"mutate_param"}) <= ParMutations

EmitSeq ==
    \* mode "param": Use is enabled in every state below the bound, so the behaviours of full length contain every prefix
    \* mode "solve": likewise (an Assemble / Solve / Forward is enabled in every state below the bound)
    (Emit /\ IsSeq /\ (IF pb.mode = "solve" THEN Len(hist) = DepthOf(pb) ELSE LastIs(ObsActs)) /\ (pb.mode = "param" => Len(hist) = ParDepth)) =>
        PrintT("@@CASE " \o ToJson(
            [kind |-> pb.kind, mode |-> pb.mode, via |-> pb.via, m |-> pb.m, T |-> IF pb.kind = "tseq" THEN pb.T ELSE <<>>,
             method |-> IF pb.kind = "tseq" THEN pb.method ELSE "", th0 |-> pb.th0, th1 |-> pb.th1, th2 |-> pb.th2,
             go0 |-> pb.go0, to0 |-> pb.to0, omap |-> pb.omap, xf |-> pb.xf, xfm |-> XfSet[pb.xf], tg |-> IF pb.mode = "solve" THEN pb.tg ELSE "",
             new |-> LET o == SeqNew(pb) IN [gs |-> o.gs, go |-> o.go, to |-> o.to, sol |-> o.sol, heap |-> o.heap],
             hist |-> hist]) \o " @@END")

(***************************************************************************)
AllProblems ==
    (IF "steady" \in Kinds THEN {p \in SteadyProblems : SteadyValid(p) /\ Solvable(AOf(p.m, p.th))} ELSE {})
    \cup (IF "time" \in Kinds THEN {p \in TimeProblems : TimeValid(p)} ELSE {})
    \cup (IF "tobs" \in Kinds THEN TobsCases ELSE {})
    \cup (IF "sobs" \in Kinds THEN SobsCases ELSE {})
    \cup {p \in SeqProblems : p.kind \in Kinds}

Init == pb \in AllProblems /\ ph = "new" /\ st = <<>> /\ traj = <<>> /\ calls = <<>> /\ obj = <<>> /\ hist = <<>>

Start ==
    /\ ph = "new"
    /\ ph' = "run"
    /\ IF pb.kind = "time" THEN TimeInit(pb) ELSE UNCHANGED <<st, traj, calls>>
    /\ IF pb.kind \in SeqKinds THEN obj' = SeqNew(pb) ELSE UNCHANGED obj      \* construct - assemble(th0) - solve
    /\ UNCHANGED <<pb, hist>>

Next == \/ Start
        \/ Step
        \/ \E k \in GridObsNames \cup OrdGridNames \cup {"none"} : SetGridObs(k)
        \/ \E k \in GridSolNames : SetGridSol(k)
        \/ \E k \in TimeObsNames \cup OrdTimeNames : SetTimeObs(k)
        \/ \E th \in SeqThetas : Assemble(th)
        \/ Solve
        \/ Observe
        \/ \E th \in SeqThetas : Forward(th)
        \/ \E o \in ParObjs, th \in SeqThetas : MutateParam(o, th)
        \/ \E a \in ArgNames : Use(a)
        \/ \E slot \in Slots, v \in GinpAllVals : MutateGrid(slot, v)
        \/ \E slot \in Slots : Reassign(slot)
        \/ \E th \in SeqThetas : SvAssemble(th)
        \/ SvSolveAct
        \/ \E th \in SeqThetas : SvForward(th)
        \/ \E th \in SeqThetas : SvGradient(th)
Spec == Init /\ [][Next]_vars
=============================================================================
