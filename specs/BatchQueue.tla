----------------------------- MODULE BatchQueue -----------------------------
(***************************************************************************)
(* Batching of samples to disk (cuqi.experimental.mcmc._BatchHandler, used  *)
(* by Sampler.sample(Ns, batch_size)): a FIFO that is flushed whenever it   *)
(* holds batch_size samples.  Growth of the SamplerLife specification       *)
(* beyond the listed properties (DESIGN 8): every sample is written exactly *)
(* once, in chain order, in consecutively numbered batches of exactly       *)
(* batch_size samples; what has not been flushed is still pending.          *)
(* Whether the last partial batch is flushed at the end of sample() is not  *)
(* documented: the specification leaves it pending and the replayer records *)
(* what the code does as an observation.                                   *)
(***************************************************************************)
EXTENDS Integers, Sequences, TLC, Json

CONSTANTS MaxN, Sizes, Emit
VARIABLES B, n, pending, dumped     \* batch size, samples added, current batch, flushed batches (sequences of sample indices)
vars == <<B, n, pending, dumped>>

Init == B \in Sizes /\ n = 0 /\ pending = <<>> /\ dumped = <<>>

Add == /\ n < MaxN
       /\ n' = n + 1
       /\ LET p == Append(pending, n + 1)
          IN IF Len(p) >= B THEN dumped' = Append(dumped, p) /\ pending' = <<>>       \* flush
                            ELSE pending' = p /\ UNCHANGED dumped
       /\ UNCHANGED B
Next == Add
Spec == Init /\ [][Next]_vars

RECURSIVE Flat(_)
Flat(s) == IF s = <<>> THEN <<>> ELSE Head(s) \o Flat(Tail(s))

ExactlyOnceInOrder == Flat(dumped) \o pending = [i \in 1..n |-> i]
FullBatches        == \A i \in 1..Len(dumped) : Len(dumped[i]) = B
PendingSmall       == Len(pending) < B
Emitted == (Emit /\ n = MaxN) => PrintT("@@CASE " \o ToJson([kind |-> "batch", b |-> B, n |-> n, dumped |-> dumped, pending |-> pending]) \o " @@END")
=============================================================================
