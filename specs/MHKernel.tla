----------------------------- MODULE MHKernel -----------------------------
(***************************************************************************)
(* One transition of the Metropolis-type kernels of CUQIpy (property C02): *)
(*   RW   random-walk Metropolis        cuqi.experimental.mcmc.MH   / cuqi.sampler.MH   *)
(*   CW   component-wise Metropolis     cuqi.experimental.mcmc.CWMH / cuqi.sampler.CWMH *)
(*   PCN  preconditioned Crank-Nicolson cuqi.experimental.mcmc.PCN  / cuqi.sampler.pCN  *)
(*   MALA Metropolis-adjusted Langevin  cuqi.experimental.mcmc.MALA / cuqi.sampler.MALA *)
(* on a finite lattice X in Z^d (d = 1: -2..2, d = 2: (-1..1)^2) with a     *)
(* target given as a TABLE of exact rationals (or NaN / -inf holes) and, for*)
(* the Langevin kernel, a drift TABLE g (table "holesg": NaN drift at the   *)
(* non-finite points).  Nothing in the kernel identities                    *)
(* depends on the table values, so the tables stand for "every target".     *)
(*                                                                         *)
(* Extended rationals: <<n, d>> with d > 0 is n/d (module Rat);             *)
(*   NaN = <<0,0>>, NegInf = <<-1,0>>, NA = <<1,0>> (this kernel has no such cache). *)
(*                                                                         *)
(* State: the chain point x, the cached evaluations c_lp (target           *)
(* log-density at x), c_grad (drift at x), c_lik (likelihood log-density at *)
(* x, PCN), the proposal scale, and the proposal awaiting its decision.     *)
(* Actions, one per step of the implementation:                             *)
(*   Propose(y)  draw the proposal noise xi (the unique noise that carries x *)
(*               to the lattice point y under the kernel's proposal map),    *)
(*               evaluate the target at y, compute the log-ratio RCODE the   *)
(*               implementation computes FROM ITS CACHES                     *)
(*   Decide(cls) compare the log-uniform with min(0, r): cls = Below (accept)*)
(*               / Above (reject, only when r < 0); a non-finite proposal is *)
(*               rejected whatever the uniform (cls = Any)                   *)
(*   Tune        warm-up changed the scale (new lattice scale)               *)
(*   SaveLoad    get_state -> fresh sampler of the same configuration ->     *)
(*               set_state (stateful interface only)                         *)
(*   Abort(y,k,mode)  the transition towards y aborts at its k-th target     *)
(*               evaluation (the evaluation raises; RW/PCN: the log-density /*)
(*               likelihood at y; CW: the evaluation of component k of the   *)
(*               sweep; MALA: k = 1 log-density at y, k = 2 drift at y).     *)
(*               Intended design: an aborted transition leaves the pair      *)
(*               (point, caches) COHERENT.  For the component-wise sweep the *)
(*               components decided before the failing evaluation may be kept*)
(*               (mode "keep": point and cache are those of the partial      *)
(*               sweep) or the whole sweep is dropped (mode "rollback": point*)
(*               and cache of the sweep start, kept in `sw`); both are valid *)
(*               kernel states, the code may follow either.  The claim is    *)
(*               coherence + Metropolis-Hastings decisions afterwards, not   *)
(*               "state unchanged".  Whether the exception reaches the caller*)
(*               is not modelled (neither required nor forbidden).           *)
(* CW performs d Propose/Decide pairs (component comp = 1..d) per transition.*)
(*                                                                         *)
(* Proposal mechanisms (noise xi ~ N(mu, I) pushed through an affine map):  *)
(*   RW/CW  y = x + s .* xi                        mu = 0                   *)
(*   PCN    y = m + a (x - m) + s (xi - m)          mu = m (prior N(m, I)), a = sqrt(1 - s^2) *)
(*          = a x + s xi for m = 0, which is what the code computes; the    *)
(*          coded form for m # 0 is the deviation ProposalUsesRawPriorDraw  *)
(*   MALA   y = x + (eps/2) g(x) + sqrt(eps) xi    mu = 0                   *)
(* Randomness source (field cfg.src, constant Sources): WHERE the kernel    *)
(* takes the noise vector xi from.  The identities above do not depend on   *)
(* it - every source must deliver the d INDEPENDENT components of xi - so   *)
(* the source is one more dimension of the configuration that the           *)
(* realisation has to cover (SourcesOf: the options the two interfaces      *)
(* offer):                                                                  *)
(*   "global"   default construction: numpy's global stream                 *)
(*   "rng"      a generator object given as rng= (cuqi.sampler.ULA / MALA)   *)
(*   "proposal" a user-supplied proposal distribution object (proposal=)    *)
(*   "callable" a user-supplied callable proposal (component-wise kernel)   *)
(*   "prior"    a user-supplied prior object whose sample() is the noise    *)
(*              (PCN: Posterior(likelihood, prior) / (likelihood, prior))   *)
(* RTrue(x, y) = lp(y) - lp(x) + log q(x | y) - log q(y | x) with           *)
(* log q(y | x) = -|xi(x -> y) - mu|^2 / 2 (Jacobians are constant in x).   *)
(*                                                                         *)
(* Named deviations (DESIGN 2.7; FALSE / "none" in the deciding cfgs):      *)
(*   ProposalUsesRawPriorDraw  PCN proposes a x + s xi, xi ~ N(m, I)        *)
(*   AcceptsNaN                accept test is  log u <= min(0, r)  only:    *)
(*                             min(0, NaN) = 0, a NaN proposal is accepted  *)
(*   Mutation (non-vacuity of the invariants, not a behaviour of the code): *)
(*     "StaleGradOnAccept", "LoadDropsCache", "RejectMoves",                *)
(*     "AbortHalfUpdated"  the sweep writes the point component by component*)
(*                         and the cache only at its end: an aborted sweep  *)
(*                         leaves the advanced point with the cache of the  *)
(*                         sweep start                                      *)
(***************************************************************************)
EXTENDS Mat, FiniteSets, TLC, Json

CONSTANTS Dims,          \* subset of {1, 2}
          Kernels,       \* subset of {"RW", "CW", "PCN", "MALA"}
          Ifaces,        \* subset of {"exp", "leg"}
          Targets1,      \* target tables used for d = 1
          Targets2,      \* target tables used for d = 2
          PriorMeans,    \* prior means m of the PCN configurations (subset of {0, 1})
          MaxT1, MaxT2,  \* transitions per behaviour for d = 1 / d = 2
          MaxTunes, MaxLoads,
          MaxAborts,     \* aborted transitions per behaviour (0: the action Abort is off)
          AllStarts,     \* TRUE: every finite lattice point is an initial point; FALSE: the origin
          Hist,          \* TRUE: keep the behaviour in `prog` (emission); FALSE: no history (deep exhaustive run)
          Emit,
          Sources,       \* randomness sources enumerated (subset of SourceIds)
          ProposalUsesRawPriorDraw, AcceptsNaN, Mutation

VARIABLES cfg,      \* [k, iface, d, tgt, sc, m, x0, src]
          x,        \* current point (tuple of integers)
          c_lp, c_grad, c_lik,   \* cached evaluations
          scale,    \* scale id
          pending,  \* proposal awaiting decision (record) or <<>>
          phase,    \* "idle" | "proposed"
          comp,     \* CW: component updated next (1..d); others: 1
          nT, nTune, nLoad, nAbort,
          sw,       \* <<point, cached log-density>> at the start of the transition (sweep) in progress
          last,     \* "init" | "decide" | "tune" | "saveload" | "propose" | "abort"
          lastAcc,  \* -1 | 0 | 1 : outcome of the last Decide
          prog      \* history of actions with the state predicted after each

vars == <<cfg, x, c_lp, c_grad, c_lik, scale, pending, phase, comp, nT, nTune, nLoad, nAbort, sw, last, lastAcc, prog>>

\* ------------------------------ extended rationals ------------------------------
NaN    == <<0, 0>>
NegInf == <<-1, 0>>
NA     == <<1, 0>>
Finite(v) == v[2] > 0
Min0(r) == IF RLt(r, Zero) THEN r ELSE Zero
RSum(f, n) == RSumSeq([i \in 1..n |-> f[i]])

\* ------------------------------ lattice ------------------------------
Pts(d) == IF d = 1 THEN -2..2 ELSE -1..1
X(d)   == IF d = 1 THEN {<<a>> : a \in Pts(1)} ELSE {<<a, b>> : a \in Pts(2), b \in Pts(2)}
Origin(d) == IF d = 1 THEN <<0>> ELSE <<0, 0>>
XSeq(d) == IF d = 1 THEN [i \in 1..5 |-> <<i - 3>>]
           ELSE [i \in 1..9 |-> <<((i - 1) \div 3) - 1, ((i - 1) % 3) - 1>>]

\* ------------------------------ target catalogue ------------------------------
A1 == [i \in -2..2 |-> CASE i = -2 -> Q(-3, 1) [] i = -1 -> Q(-1, 2) [] i = 0 -> Zero [] i = 1 -> Q(-2, 3) [] i = 2 -> Q(-5, 2)]
G1 == [i \in -2..2 |-> CASE i = -2 -> 2 [] i = -1 -> 1 [] i = 0 -> -2 [] i = 1 -> 0 [] i = 2 -> 4]
A2 == [i \in -1..1 |-> CASE i = -1 -> Q(-1, 2) [] i = 0 -> Zero [] i = 1 -> Q(-2, 3)]
B2 == [i \in -1..1 |-> CASE i = -1 -> Q(-1, 1) [] i = 0 -> Zero [] i = 1 -> Q(-1, 4)]

Asym(d, p) == IF d = 1 THEN A1[p[1]]
              ELSE RAdd(RAdd(A2[p[1]], B2[p[2]]), Q(p[1] * p[2], 3))
Quad(d, p) == IF d = 1 THEN RMul(Q(-3, 4), R((p[1] - 1) * (p[1] - 1)))
              ELSE RAdd(RAdd(RMul(Q(-3, 4), R((p[1] - 1) * (p[1] - 1))), RMul(Q(-1, 2), R((p[2] + 1) * (p[2] + 1)))),
                        Q(p[1] * p[2], 2))
Hole(d, p) == IF d = 1 THEN (IF p = <<2>> THEN NaN ELSE IF p = <<-2>> THEN NegInf ELSE NA)
              ELSE (IF p = <<1, -1>> THEN NaN ELSE IF p = <<-1, 1>> THEN NegInf ELSE NA)

\* table value at p: the target log-density (RW, CW, MALA) or the likelihood log-density (PCN)
Table(d, tgt, p) ==
    CASE tgt = "quad"  -> Quad(d, p)
      [] tgt = "asym"  -> Asym(d, p)
      [] tgt \in {"holes", "holesg"} -> IF Hole(d, p) = NA THEN Asym(d, p) ELSE Hole(d, p)

\* drift table (the true gradient for "quad"; an arbitrary table otherwise - the MALA identities hold for every drift)
Grad(d, tgt, p) ==
    IF tgt = "holesg" /\ Hole(d, p) # NA THEN [i \in 1..d |-> NaN]     \* the drift is undefined (NaN) where the density is
    ELSE IF tgt = "quad"
    THEN (IF d = 1 THEN <<RMul(Q(-3, 2), R(p[1] - 1))>>
          ELSE <<RAdd(RMul(Q(-3, 2), R(p[1] - 1)), Q(p[2], 2)), RAdd(R(-(p[2] + 1)), Q(p[1], 2))>>)
    ELSE (IF d = 1 THEN <<R(G1[p[1]])>> ELSE <<R(p[2] - 2 * p[1] + 1), R(1 - p[1])>>)

\* ------------------------------ scales ------------------------------
SV(id, d) == CASE id = "one"     -> [i \in 1..d |-> One]
               [] id = "half"    -> [i \in 1..d |-> Half]
               [] id = "quarter" -> [i \in 1..d |-> Q(1, 4)]
               [] id = "s35"     -> [i \in 1..d |-> Q(3, 5)]
               [] id = "s45"     -> [i \in 1..d |-> Q(4, 5)]
               [] id = "percomp" -> <<One, Half>>
ScaleIds == {"one", "half", "quarter", "s35", "s45", "percomp"}
ScalesOf(k) == CASE k = "RW" -> {"one", "half"} [] k = "CW" -> {"one", "half", "percomp"}
                 [] k = "PCN" -> {"s35", "s45"} [] k = "MALA" -> {"one", "quarter"}
NextScale(k, id) == CASE k = "RW"   -> (IF id = "one" THEN "half" ELSE "one")
                      [] k = "CW"   -> (IF id = "one" THEN "percomp" ELSE IF id = "percomp" THEN "half" ELSE "one")
                      [] k = "PCN"  -> (IF id = "s35" THEN "s45" ELSE "s35")
                      [] k = "MALA" -> (IF id = "one" THEN "quarter" ELSE "one")
PcnA(id)    == IF id = "s35" THEN Q(4, 5) ELSE Q(3, 5)          \* sqrt(1 - s^2)
SqrtEps(id) == IF id = "one" THEN One ELSE Half                 \* sqrt(eps)
ASSUME \A id \in {"s35", "s45"} : RAdd(RSq(PcnA(id)), RSq(SV(id, 1)[1])) = One
ASSUME \A id \in {"one", "quarter"} : RSq(SqrtEps(id)) = SV(id, 1)[1]

\* ------------------------------ randomness sources ------------------------------
SourceIds == {"global", "rng", "proposal", "callable", "prior"}
\* the options of kernel k in interface iface that change where the proposal noise comes from
SourcesOf(k, iface) ==
    {"global"} \cup CASE k = "RW"   -> {"proposal"}
                     [] k = "CW"   -> {"proposal", "callable"}
                     [] k = "PCN"  -> {"prior"}
                     [] k = "MALA" -> IF iface = "leg" THEN {"rng"} ELSE {}
ASSUME Sources \subseteq SourceIds

\* ------------------------------ configurations ------------------------------
PriorLog(c, p) == RMul(Q(-1, 2), RSum([i \in 1..c.d |-> R((p[i] - c.m) * (p[i] - c.m))], c.d))
\* target log-density of the configuration at p
LP(c, p) == LET t == Table(c.d, c.tgt, p) IN
            IF c.k = "PCN" /\ Finite(t) THEN RAdd(t, PriorLog(c, p)) ELSE t

Valid(c) == /\ c.x0 \in X(c.d)
            /\ (AllStarts \/ c.x0 = Origin(c.d))
            /\ Finite(Table(c.d, c.tgt, c.x0))
            /\ c.sc \in ScalesOf(c.k)
            /\ (c.sc = "percomp" => c.d = 2)
            /\ (c.k = "CW" => c.d = 2)
            /\ (c.tgt = "holesg" => c.k = "MALA")
            /\ c.tgt \in (IF c.d = 1 THEN Targets1 ELSE Targets2)
            /\ (IF c.k = "PCN" THEN c.m \in PriorMeans ELSE c.m = 0)
            /\ c.src \in SourcesOf(c.k, c.iface)
Configs == {c \in [k : Kernels, iface : Ifaces, d : Dims, tgt : Targets1 \cup Targets2, sc : ScaleIds,
                   m : PriorMeans \cup {0}, x0 : X(1) \cup X(2), src : Sources] : Valid(c)}

MaxT(c) == IF c.d = 1 THEN MaxT1 ELSE MaxT2
HasLp(k)   == k \in {"RW", "CW", "MALA"}
HasGrad(k) == k = "MALA"
HasLik(k)  == k = "PCN"

\* ------------------------------ proposal mechanism ------------------------------
\* the noise vector that carries `from` to `to`
Noise(c, id, from, to) ==
    LET d == c.d
        s == SV(id, d)
    IN CASE c.k \in {"RW", "CW"} -> F([i \in 1..d |-> RDiv(R(to[i] - from[i]), s[i])])
         [] c.k = "PCN" ->
              LET a == PcnA(id)
                  m == R(c.m)
              IN IF ProposalUsesRawPriorDraw
                 THEN F([i \in 1..d |-> RDiv(RSub(R(to[i]), RMul(a, R(from[i]))), s[i])])
                 ELSE F([i \in 1..d |-> RAdd(m, RDiv(RSub(RSub(R(to[i]), m), RMul(a, RSub(R(from[i]), m))), s[i]))])
         [] c.k = "MALA" ->
              LET g  == Grad(d, c.tgt, from)
                  e2 == RMul(Half, s[1])
              IN F([i \in 1..d |-> RDiv(RSub(R(to[i] - from[i]), RMul(e2, g[i])), SqrtEps(id))])
NoiseMean(c) == IF c.k = "PCN" THEN R(c.m) ELSE Zero
\* the noise of a transition is a d-vector of independent draws: a source that hands one value to every component is
\* only told apart on a noise vector with two DIFFERENT components.  For the component-wise kernel the noise vector of a
\* sweep collects the component noises of its d proposals (each Noise(...) has one non-zero entry).
Distinct(n) == \E i, j \in DOMAIN n : n[i] # n[j]
\* every configuration with a source other than the global stream in dimension >= 2 has a first transition whose noise
\* has two different components (non-vacuity of the source dimension; evaluated once, over the constants)
SourceConfigsDistinguish ==
    \A c \in {q \in [k : Kernels, iface : Ifaces, d : Dims, tgt : Targets1 \cup Targets2, sc : ScaleIds,
                       m : PriorMeans \cup {0}, x0 : X(1) \cup X(2), src : Sources \ {"global"}] : Valid(q)} :
        c.d >= 2 => \E y \in X(c.d) : Distinct(Noise(c, c.sc, c.x0, y))
ASSUME SourceConfigsDistinguish
\* log q(to | from) up to a constant that does not depend on (from, to)
LogQ(c, id, from, to) ==
    LET n  == Noise(c, id, from, to)
        mu == NoiseMean(c)
    IN RMul(Q(-1, 2), RSum([i \in 1..c.d |-> RSq(RSub(n[i], mu))], c.d))
\* the Metropolis-Hastings log-ratio of the mechanism (both points finite)
RTrue(c, id, from, to) ==
    RAdd(RSub(LP(c, to), LP(c, from)), RSub(LogQ(c, id, to, from), LogQ(c, id, from, to)))

\* ------------------------------ what the implementation computes ------------------------------
\* MALA._log_proposal(theta_star, theta_k, g_logpi_k) = -0.5 * (1/scale) * |theta_star - (theta_k + (scale/2) g_logpi_k)|^2
LogProp(id, d, thetaStar, thetaK, gK) ==
    LET eps == SV(id, d)[1]
        mis == F([i \in 1..d |-> RSub(R(thetaStar[i]), RAdd(R(thetaK[i]), RMul(RMul(eps, Half), gK[i])))])
    IN RMul(Q(-1, 2), RMul(RInv(eps), RSum([i \in 1..d |-> RSq(mis[i])], d)))
\* log-ratio computed from the cached values (clp, cgrad, clik) held for `from`; the table value at `to` is finite
RCodeAt(c, id, from, to, clp, cgrad, clik) ==
    LET tv == Table(c.d, c.tgt, to) IN
    CASE c.k \in {"RW", "CW"} -> RSub(tv, clp)
      [] c.k = "PCN"  -> RSub(tv, clik)
      [] c.k = "MALA" -> RAdd(RSub(tv, clp),
                              RSub(LogProp(id, c.d, from, to, Grad(c.d, c.tgt, to)), LogProp(id, c.d, to, from, cgrad)))
\* caches a freshly initialised / coherent sampler holds at p
CLp(c, p)   == IF HasLp(c.k) THEN Table(c.d, c.tgt, p) ELSE NA
CGrad(c, p) == IF HasGrad(c.k) THEN Grad(c.d, c.tgt, p) ELSE <<>>
CLik(c, p)  == IF HasLik(c.k) THEN Table(c.d, c.tgt, p) ELSE NA

\* ------------------------------ actions ------------------------------
Log(e) == IF Hist THEN Append(prog, e) ELSE prog

Init == /\ cfg \in Configs
        /\ x = cfg.x0 /\ c_lp = CLp(cfg, cfg.x0) /\ c_grad = CGrad(cfg, cfg.x0) /\ c_lik = CLik(cfg, cfg.x0)
        /\ scale = cfg.sc /\ pending = <<>> /\ phase = "idle" /\ comp = 1
        /\ nT = 0 /\ nTune = 0 /\ nLoad = 0 /\ nAbort = 0 /\ sw = <<cfg.x0, CLp(cfg, cfg.x0)>>
        /\ last = "init" /\ lastAcc = -1 /\ prog = <<>>

Moves == IF cfg.k = "CW" THEN {y \in X(cfg.d) : \A i \in 1..cfg.d : i # comp => y[i] = x[i]} ELSE X(cfg.d)

Propose(y) ==
    /\ phase = "idle" /\ nT < MaxT(cfg) /\ y \in Moves
    /\ LET tv == Table(cfg.d, cfg.tgt, y)
           xi == Noise(cfg, scale, x, y)
           gy == CGrad(cfg, y)
           r  == IF Finite(tv) THEN RCodeAt(cfg, scale, x, y, c_lp, c_grad, c_lik) ELSE NaN
           \* what the deviation ProposalUsesRawPriorDraw proposes for the same draw (emitted to explain a mismatch)
           yraw == IF cfg.k = "PCN"
                   THEN LET a == PcnA(scale) s == SV(scale, cfg.d) IN
                        [i \in 1..cfg.d |-> RAdd(RMul(a, R(x[i])), RMul(s[i], xi[i]))]
                   ELSE <<>>
       IN /\ pending' = [y |-> y, xi |-> xi, tv |-> tv, gy |-> gy, r |-> r]
          /\ prog' = Log([a |-> "p", j |-> IF cfg.k = "CW" THEN comp ELSE 0, y |-> y, xi |-> xi, tv |-> tv, gy |-> gy, r |-> r,
                          yraw |-> yraw])
    /\ phase' = "proposed" /\ last' = "propose"
    /\ UNCHANGED <<cfg, x, c_lp, c_grad, c_lik, scale, comp, nT, nTune, nLoad, nAbort, sw, lastAcc>>

Classes == IF ~Finite(pending.tv) THEN {"Any"}
           ELSE IF RLt(pending.r, Zero) THEN {"Below", "Above"} ELSE {"Below"}

Decide(cls) ==
    /\ phase = "proposed" /\ cls \in Classes
    /\ LET accept == IF Finite(pending.tv) THEN cls = "Below" ELSE (AcceptsNaN /\ pending.tv = NaN)
           sweepEnd == cfg.k # "CW" \/ comp = cfg.d
           nx   == IF accept \/ Mutation = "RejectMoves" THEN pending.y ELSE x
           nlp  == IF accept /\ HasLp(cfg.k) THEN pending.tv ELSE c_lp
           ngr  == IF accept /\ HasGrad(cfg.k) /\ Mutation # "StaleGradOnAccept" THEN pending.gy ELSE c_grad
           nlk  == IF accept /\ HasLik(cfg.k) THEN pending.tv ELSE c_lik
       IN /\ x' = nx /\ c_lp' = nlp /\ c_grad' = ngr /\ c_lik' = nlk
          /\ lastAcc' = IF accept THEN 1 ELSE 0
          /\ comp' = IF sweepEnd THEN 1 ELSE comp + 1
          /\ nT' = IF sweepEnd THEN nT + 1 ELSE nT
          /\ sw' = IF sweepEnd THEN <<nx, nlp>> ELSE sw
          /\ prog' = Log([a |-> "d", cls |-> cls, acc |-> IF accept THEN 1 ELSE 0, x |-> nx, clp |-> nlp, cgrad |-> ngr,
                          clik |-> nlk, fin |-> sweepEnd])
    /\ pending' = <<>> /\ phase' = "idle" /\ last' = "decide"
    /\ UNCHANGED <<cfg, scale, nTune, nLoad, nAbort>>

\* warm-up adapted the scale (the transition just made was a warm-up step); the new scale is again a lattice scale
Tune ==
    /\ phase = "idle" /\ comp = 1 /\ last = "decide" /\ nTune < MaxTunes /\ nT < MaxT(cfg)
    /\ scale' = NextScale(cfg.k, scale)
    /\ nTune' = nTune + 1 /\ last' = "tune"
    /\ prog' = Log([a |-> "t", sc |-> scale', sv |-> SV(scale', cfg.d)])
    /\ UNCHANGED <<cfg, x, c_lp, c_grad, c_lik, pending, phase, comp, nT, nLoad, nAbort, sw, lastAcc>>

\* get_state -> freshly constructed sampler of the same configuration (initialised at x0) -> set_state
SaveLoad ==
    /\ cfg.iface = "exp" /\ phase = "idle" /\ comp = 1 /\ last # "saveload" /\ nLoad < MaxLoads /\ nT < MaxT(cfg)
    /\ LET dropped == IF Mutation = "LoadDropsCache" THEN {"c_lp", "c_lik"} ELSE {}
       IN /\ x' = x /\ scale' = scale /\ c_grad' = c_grad
          /\ c_lp'  = IF "c_lp"  \in dropped THEN CLp(cfg, cfg.x0)  ELSE c_lp
          /\ c_lik' = IF "c_lik" \in dropped THEN CLik(cfg, cfg.x0) ELSE c_lik
          /\ sw' = <<x', c_lp'>>
    /\ nLoad' = nLoad + 1 /\ last' = "saveload"
    /\ prog' = Log([a |-> "s", x |-> x', clp |-> c_lp', cgrad |-> c_grad', clik |-> c_lik', sv |-> SV(scale, cfg.d)])
    /\ UNCHANGED <<cfg, pending, phase, comp, nT, nTune, nAbort, lastAcc>>

\* ------------------------------ aborted transitions ------------------------------
\* target evaluations of one transition, in the order the transition makes them
NEvals(c) == CASE c.k = "CW" -> c.d [] c.k = "MALA" -> 2 [] OTHER -> 1
EvalKind(c, k) == CASE c.k = "PCN" -> "lik" [] c.k = "MALA" /\ k = 2 -> "grad" [] OTHER -> "lp"
\* the kernel states an aborted transition may leave: the partial sweep (point and cache after the components decided
\* so far) and the sweep start.  They coincide unless a component of the sweep in progress has been accepted.
AbortStates == IF <<x, c_lp>> = sw THEN << [x |-> x, clp |-> c_lp] >>
               ELSE << [x |-> x, clp |-> c_lp], [x |-> sw[1], clp |-> sw[2]] >>

\* the proposal whose evaluation fails is never decided and does not enter the state claim: it ranges over the lattice
\* neighbours of x only (it must differ from x: a kernel that moves to it before evaluating it would otherwise go unnoticed)
AbortMoves == {y \in Moves : (IF cfg.d = 1 THEN Abs(y[1] - x[1]) ELSE Abs(y[1] - x[1]) + Abs(y[2] - x[2])) = 1}

\* the transition that would propose y aborts at its k-th evaluation (a following transition must fit: nT < MaxT)
Abort(y, k, mode) ==
    /\ phase = "idle" /\ nT < MaxT(cfg) /\ nAbort < MaxAborts
    /\ y \in AbortMoves
    /\ k \in 1..NEvals(cfg) /\ (cfg.k = "CW" => k = comp)
    /\ mode \in {"keep", "rollback"} /\ (mode = "rollback" => <<x, c_lp>> # sw)
    /\ LET half == Mutation = "AbortHalfUpdated"
           nx   == IF mode = "keep" THEN x ELSE sw[1]
           nlp  == IF mode = "keep" /\ ~half THEN c_lp ELSE sw[2]     \* half: the point is written, the cache is not
       IN /\ x' = nx /\ c_lp' = nlp /\ sw' = <<nx, nlp>>
          /\ prog' = Log([a |-> "x", j |-> IF cfg.k = "CW" THEN comp ELSE 0, k |-> k, ev |-> EvalKind(cfg, k), y |-> y,
                          xi |-> Noise(cfg, scale, x, y), mode |-> mode, x |-> nx, clp |-> nlp, cgrad |-> c_grad,
                          clik |-> c_lik, alt |-> AbortStates])
    /\ comp' = 1 /\ nAbort' = nAbort + 1 /\ last' = "abort" /\ lastAcc' = -1
    /\ UNCHANGED <<cfg, c_grad, c_lik, scale, pending, phase, nT, nTune, nLoad>>

Next == \/ \E y \in X(cfg.d) : Propose(y)
        \/ \E cls \in {"Below", "Above", "Any"} : Decide(cls)
        \/ Tune \/ SaveLoad
        \/ \E y \in X(cfg.d), k \in 1..2, mode \in {"keep", "rollback"} : Abort(y, k, mode)

Spec == Init /\ [][Next]_vars

\* ------------------------------ properties ------------------------------
\* the log-ratio the implementation computes is the Metropolis-Hastings log-ratio of its proposal mechanism
RatioIsMH == (phase = "proposed" /\ Finite(pending.tv)) => pending.r = RTrue(cfg, scale, x, pending.y)

\* pi(x) q(y|x) a(x,y) = pi(y) q(x|y) a(y,x) with a = exp(min(0, r)) computed by the implementation in either direction
DetailedBalance ==
    (phase = "proposed" /\ Finite(pending.tv)) =>
        LET y  == pending.y
            rb == RCodeAt(cfg, scale, y, x, CLp(cfg, y), CGrad(cfg, y), CLik(cfg, y))
            rt == RTrue(cfg, scale, x, y)
        IN /\ RTrue(cfg, scale, y, x) = RNeg(rt)
           /\ RSub(Min0(pending.r), Min0(rb)) = rt

\* every cache describes the current point under the current target - in every state (also mid-sweep and after an
\* aborted transition)
CacheCoherent == /\ c_lp = CLp(cfg, x) /\ c_grad = CGrad(cfg, x) /\ c_lik = CLik(cfg, x)

\* the chain never sits on a point whose log-density is NaN / -inf (inductive: the initial point is finite)
NoNonFiniteAccept == Finite(LP(cfg, x))

IsDecide == phase = "proposed" /\ phase' = "idle"
\* a rejected proposal leaves the point, every cache and the scale unchanged
RejectKeepsState == [][(IsDecide /\ lastAcc' = 0) => UNCHANGED <<x, c_lp, c_grad, c_lik, scale>>]_vars

\* the boolean facets logged by the recorder at every real transition (validated by TraceMHKernel)
StepFacets(moved, acc, cacheOk, finiteOk) == cacheOk /\ finiteOk /\ (moved => acc)
FacetsHold == [][IsDecide => StepFacets(x' # x, lastAcc' = 1,
                                        c_lp' = CLp(cfg, x') /\ c_grad' = CGrad(cfg, x') /\ c_lik' = CLik(cfg, x'),
                                        Finite(LP(cfg, x')))]_vars

\* ------------------------------ emission ------------------------------
Terminal == phase = "idle" /\ comp = 1 /\ nT = MaxT(cfg)
Rows(c) == LET xs == XSeq(c.d) IN
           [i \in 1..Len(xs) |-> [p |-> xs[i], t |-> Table(c.d, c.tgt, xs[i]), g |-> Grad(c.d, c.tgt, xs[i])]]
Emitted ==
    /\ (Emit /\ last = "init") =>
          PrintT("@@CASE " \o ToJson([kind |-> "root", cfg |-> cfg, sv |-> SV(cfg.sc, cfg.d), clp |-> c_lp, cgrad |-> c_grad,
                                      clik |-> c_lik, rows |-> Rows(cfg)]) \o " @@END")
    /\ (Emit /\ Hist /\ Terminal /\ nAbort = MaxAborts) =>
          PrintT("@@CASE " \o ToJson([kind |-> "beh", cfg |-> cfg, prog |-> prog]) \o " @@END")
=============================================================================
