------------------------------ MODULE Solvers ------------------------------
(***************************************************************************)
(* Solvers of cuqi.solver (property C16) over exact rationals.             *)
(*                                                                         *)
(*  kind "cg"   : CGLS / PCGLS as a state machine <<x, r, s, p, gamma, k>>  *)
(*                with the action Iterate (one pass of the coded loop):    *)
(*                   t = P^-1 p (t = p without preconditioner), q = A t     *)
(*                   delta = |q|^2 + shift |t|^2,  alpha = gamma / delta    *)
(*                   x' = x + alpha t,   r' = r - alpha q                   *)
(*                   s' = P^-T (A^T r' - shift x'),  gamma' = |s'|^2        *)
(*                   p' = s' + (gamma'/gamma) p                             *)
(*                i.e. conjugate gradients on (A^T A + shift I) x = A^T b   *)
(*                in the variable y = P x.  The loop ends when s = 0        *)
(*                (the relative normal-residual rule of the code with an    *)
(*                exact zero).  Invariants: r = b - A x; s is the           *)
(*                (transformed) normal residual of x; finite termination    *)
(*                k <= n; at termination (A^T A + shift I) x = A^T b.       *)
(*  kind "prox" : ProjectNonnegative, ProjectBox, ProximalL1 and the l1     *)
(*                preset with a strength as exact piecewise-linear maps on  *)
(*                a half-integer lattice; invariants: closest point /       *)
(*                variational inequality / sub-gradient optimality.         *)
(*                Bounds of a box are EXTENDED reals: a rational or the     *)
(*                sentinel PInf / NInf (emitted as "Inf" / "-Inf"); the box *)
(*                projection is the componentwise PIECEWISE map             *)
(*                   x < lower -> lower,  x > upper -> upper,  else x       *)
(*                so one-sided and unbounded boxes have a finite image.     *)
(*  kind "kkt"  : regularised least-squares problems CONSTRUCTED from their *)
(*                KKT system: xs, g in dh(xs), unimodular A,                *)
(*                b = A xs + A^-T g; invariant: xs is a fixed point of      *)
(*                prox_{t h}(x - t A^T(Ax-b)) for every step t and the      *)
(*                minimiser of 1/2|Ax-b|^2 + h(x) over the lattice.         *)
(*  kind "lm"   : sums of squares with known (rational) stationary points.  *)
(*  kind "wrap" : SciPy wrappers as a relation: objective handed to SciPy = *)
(*                sign * f (sign = -1 for maximize), result returned        *)
(*                unchanged, info = renaming of SciPy's result fields;      *)
(*                objectives: separable quadratics and the non-quadratic    *)
(*                "para" family (minimum (a, a^2)); every wrapper with the  *)
(*                documented keyword arguments of its SciPy target          *)
(*                (tables LbfgsOpts / MinOpts / LsOpts), default and not.   *)
(*  kind "seq"  : ONE solver object and a SEQUENCE of public operations:    *)
(*                the actions Solve and SetOp (reassign one public operand: *)
(*                A, b, x0, shift, maxit, tol, proximal, stepsize, func,    *)
(*                gradfunc, method, kwargs ...).  The object may keep       *)
(*                derived data between calls (cache = back-projected data   *)
(*                A^T b); every SetOp of an operand the cache depends on    *)
(*                clears it.  Invariants: the end point expected from a     *)
(*                Solve depends only on the operands the object holds at    *)
(*                that moment (SeqCurrentOperands) and satisfies their      *)
(*                optimality system (SeqOptimality).                        *)
(*  kind "cgill": ill-conditioned CGLS / PCGLS problems (nearly collinear   *)
(*                dyadic columns, zero or tiny shift) in postcondition      *)
(*                form: TLC verifies the constructed point exactly; in      *)
(*                floating point more than n iterations are needed.         *)
(*  kind "proc" : ONE process, a LIST of different problems solved by       *)
(*                different wrapper objects in every order (action Call):   *)
(*                the outcome of a call depends on its own arguments only   *)
(*                (CallsIndependent).                                       *)
(*  LAYOUT      : every argument array of a solver (matrix A, right-hand    *)
(*                side b, start vector x0; the point and the bounds of a    *)
(*                projection) has a LAYOUT - how the same exact numbers are *)
(*                stored: float64 array, integer array, float32 array,      *)
(*                Fortran order, strided / reversed view, read-only array,  *)
(*                python list, (n,1) / (1,n) / 0-d shapes.  The layout is a  *)
(*                field `lay` of the problems of kind "cg" (the machine      *)
(*                stores its iterate through Cast) and of the problems of    *)
(*                kind "lay" (FISTA / ISTA, LM, the SciPy wrappers and the   *)
(*                projections in postcondition form).  Invariant             *)
(*                LayoutIndependent: the end point is the solution of the   *)
(*                problem WITHOUT its layout and satisfies the optimality    *)
(*                system (which never mentions a layout).  The arguments     *)
(*                are never changed by an action (ArgumentsFrame).           *)
(*                                                                         *)
(* Named deviations (off in the deciding configurations):                  *)
(*   PcglsIgnoresShift  : PCGLS drops the shift from s and delta            *)
(*   MaximizeDropsSign  : maximize hands f itself to SciPy                  *)
(*   StaleCachedOperand : a reassigned A does not clear the cached A^T b    *)
(*   DefaultsLeakBetweenCalls : the default iteration limit of the first   *)
(*                        call of the process governs every later call     *)
(*   IterateKeepsStartDtype : the iterate is stored in a buffer that has   *)
(*                        the layout of the start vector: an integer start *)
(*                        truncates every iterate towards zero             *)
(***************************************************************************)
EXTENDS MatQ, FiniteSets, TLC, Json

CONSTANTS MaxDim,            \* CGLS: all full-rank A in {-1,0,1}^(m x n), m, n <= MaxDim (<= 2), exhaustively
          Dim3Mod,           \* 0: no size-3 problems; k > 0: every k-th full-rank matrix with a dimension equal to 3
          Seed,              \* selects the residue class of the size-3 sample
          Level,             \* 1 (quick): three right-hand sides per shape, short list of unimodular matrices for "kkt";
                             \* 2 (thorough): every b in the box, all 2x2 unimodular matrices over {-1,0,1,2}, and 3x3
          MagBound,          \* cg: a state whose numerators / denominators exceed this is not iterated further (32-bit TLC)
          MagBound3,         \* the same bound for the problems with a dimension equal to 3
          Kinds,             \* subset of {"cg", "cgill", "prox", "kkt", "lm", "wrap", "seq", "proc", "lay"}
          Emit,
          SeqLen,            \* seq: number of operations per behaviour (the last one is a Solve)
          SeqSets,           \* seq: at most this many reassignments per behaviour
          PcglsIgnoresShift,
          MaximizeDropsSign,
          StaleCachedOperand,
          DefaultsLeakBetweenCalls,
          IterateKeepsStartDtype

VARIABLES pb,     \* the problem (record with field kind)
          ph,     \* "new": problem chosen, nothing computed yet; "run": state initialised
          it,     \* iteration state of the cg machine; seq: the operands the object holds and its cache (<<>> otherwise)
          hist    \* cg: what the operator was applied to, and the iterates, so far; seq: the operations so far

vars == <<pb, ph, it, hist>>

Min(a, b) == IF a < b THEN a ELSE b
RECURSIVE IPow(_, _)
IPow(a, k) == IF k = 0 THEN 1 ELSE a * IPow(a, k - 1)
Half3 == Q(3, 2)
Two   == R(2)

Run(kind) == ph = "run" /\ pb.kind = kind

(***************************************************************************)
(* LAYOUT of the argument arrays (field `lay` of a problem)                *)
(*                                                                         *)
(*   "f64"     : C-contiguous float64 array (the layout of every other kind)*)
(*   "int"     : integer array (admissible only when the data are integers) *)
(*   "f32"     : float32 array (the data of the spec are small integers /   *)
(*               dyadic rationals: exactly representable)                   *)
(*   "fortran" : column-major matrix                                        *)
(*   "view"    : non-contiguous view (every second element of a buffer)     *)
(*   "rev"     : view with negative strides                                 *)
(*   "ro"      : read-only array (flags.writeable = False)                  *)
(*   "list"    : (nested) python list                                       *)
(*   "col" / "row" / "scalar" : (n,1) / (1,n) array, 0-d (projections only:  *)
(*               their arguments are documented as array_like)              *)
(*   "na"      : the solver has no such argument                            *)
(* A layout is a way of STORING the exact numbers of the problem: it is not *)
(* an operand of the mathematics.  The only place where the machine touches *)
(* it is Cast: storing a vector in the buffer of the iterate.  Intended     *)
(* design: the iterate is kept in working precision whatever the start      *)
(* vector looked like (Cast = identity).  Deviation IterateKeepsStartDtype: *)
(* the buffer has the layout of the start vector, an integer start          *)
(* truncates towards zero (numpy's cast float -> int).                      *)
(***************************************************************************)
LayVec == {"f64", "int", "f32", "view", "rev", "ro", "list"}
LayMat == LayVec \cup {"fortran"}
Lay(a, b, x) == [A |-> a, b |-> b, x0 |-> x]
NoLay == Lay("f64", "f64", "f64")
NonDefault(t) == Cardinality({ f \in {"A", "b", "x0"} : t[f] \notin {"f64", "na"} })

\* each argument's layout varied alone ...
LaySingles == { Lay(a, "f64", "f64") : a \in LayMat \ {"f64"} } \cup { Lay("f64", b, "f64") : b \in LayVec \ {"f64"} }
              \cup { Lay("f64", "f64", x) : x \in LayVec \ {"f64"} }
\* ... all arguments in the same layout, and some mixed ones (never float32 for ALL arguments: that is a problem posed
\* and solved in single precision, whose accuracy is not that of the float64 problem)
LayDiag == { Lay(l, l, l) : l \in {"int", "view", "rev", "ro", "list"} }
           \cup { Lay("f32", "f32", "f64"), Lay("fortran", "int", "ro"), Lay("int", "f32", "view"), Lay("ro", "list", "int") }
\* ... every pair of layouts of two arguments (thorough tier)
LayPairs == { t \in { Lay(a, b, x) : a \in LayMat, b \in LayVec, x \in LayVec } : NonDefault(t) = 2 }
LayTriples == LaySingles \cup LayDiag \cup (IF Level >= 2 THEN LayPairs ELSE {})
\* solvers with a start vector only
LayStarts == { Lay("na", "na", x) : x \in LayVec }

IsInt(a) == a[2] = 1
IntVec(v) == \A i \in 1..Len(v) : IsInt(v[i])
IntMat(M) == \A i \in 1..Len(M) : IntVec(M[i])
\* truncation towards zero
Trunc(a) == IF a[1] >= 0 THEN R(a[1] \div a[2]) ELSE R(-((-a[1]) \div a[2]))
\* storing the vector v in the buffer of the iterate of a run whose start vector has the layout l
Cast(l, v) == IF IterateKeepsStartDtype /\ l = "int" THEN F([i \in 1..Len(v) |-> Trunc(v[i])]) ELSE v

(***************************************************************************)
(* kind "cg"                                                               *)
(***************************************************************************)
Ent == {-1, 0, 1}
IMats(m, n, S) == [1..m -> [1..n -> S]]
FullRank(A, m, n) == QRank(MR(A)) = Min(m, n)
RECURSIVE CodeSeq(_)
CodeSeq(s) == IF s = <<>> THEN 0 ELSE (Head(s) + 1) + 3 * CodeSeq(Tail(s))
RECURSIVE Flatten(_)
Flatten(M) == IF M = <<>> THEN <<>> ELSE Head(M) \o Flatten(Tail(M))
Code(A) == CodeSeq(Flatten(A))

CgProblemsL(solver, m, n, As, Bs, Xs, Shs, Ps, Ls) ==
    { [kind |-> "cg", solver |-> solver, m |-> m, n |-> n, A |-> A, b |-> b, x0 |-> x0, shift |-> sh, P |-> P, lay |-> l] :
        A \in As, b \in Bs, x0 \in Xs, sh \in Shs, P \in Ps, l \in Ls }
CgProblems(solver, m, n, As, Bs, Xs, Shs, Ps) == CgProblemsL(solver, m, n, As, Bs, Xs, Shs, Ps, {NoLay})

\* unit-triangular integer preconditioners (det 1: P^-1 is an integer matrix)
Precs(n) == IF n = 2 THEN { <<<<1, 0>>, <<1, 1>>>>, <<<<1, -2>>, <<0, 1>>>> }
            ELSE { <<<<1, 0, 0>>, <<1, 1, 0>>, <<0, -1, 1>>>> }

BoxS == {-1, 0, 1}
BoxB == {-1, 0, 2}

BSet(m) == IF Level >= 2 THEN [1..m -> BoxB]
           ELSE { [i \in 1..m |-> IF i = 1 THEN -1 ELSE 2], [i \in 1..m |-> IF i = 1 THEN 2 ELSE 0] }
CgSmall ==
    UNION { UNION { CgProblems("cgls", m, n, {A \in IMats(m, n, Ent) : FullRank(A, m, n)},
                               BSet(m), [1..n -> BoxS], {0, 1}, {<<>>})
                    : n \in 1..MaxDim } : m \in 1..MaxDim }
PcgSmall ==
    UNION { CgProblems("pcgls", m, 2, {A \in IMats(m, 2, Ent) : FullRank(A, m, 2)},
                       IF Level >= 2 THEN {[i \in 1..m |-> IF i = 1 THEN 2 ELSE -1], [i \in 1..m |-> i - 1]}
                                     ELSE {[i \in 1..m |-> IF i = 1 THEN 2 ELSE -1]},
                       {<<0, 0>>, <<1, -1>>, <<-1, 0>>}, {0, 1}, Precs(2))
            : m \in 1..MaxDim }

\* size-3 sample (thorough tier)
Sampled(A) == Dim3Mod > 0 /\ (Code(A) % Dim3Mod) = (Seed % Dim3Mod)
B3(m) == { [i \in 1..m |-> IF i = 2 THEN -1 ELSE i], [i \in 1..m |-> IF i = 1 THEN 0 ELSE 1] }
X3(n) == { [i \in 1..n |-> 0], [i \in 1..n |-> IF i = 1 THEN 1 ELSE IF i = 2 THEN -1 ELSE 0] }
Shapes3 == {<<3, 1>>, <<3, 2>>, <<3, 3>>, <<1, 3>>, <<2, 3>>}
Cg3 ==
    IF Dim3Mod = 0 THEN {}
    ELSE UNION { CgProblems("cgls", sh[1], sh[2],
                            {A \in IMats(sh[1], sh[2], Ent) : Sampled(A) /\ FullRank(A, sh[1], sh[2])},
                            B3(sh[1]), X3(sh[2]), {0, 1}, {<<>>}) : sh \in Shapes3 }
         \cup UNION { CgProblems("pcgls", sh[1], 3,
                            {A \in IMats(sh[1], 3, Ent) : Sampled(A) /\ FullRank(A, sh[1], 3)},
                            B3(sh[1]), X3(3), {0, 1}, Precs(3)) : sh \in {<<3, 3>>, <<2, 3>>} }

CgAll == CgSmall \cup PcgSmall \cup Cg3

\* the LAYOUT dimension of the conjugate-gradient solvers: a few problems (square, tall, under-determined; integer data, so
\* that every layout is admissible) x shift x every layout triple.  The machine below runs them as every other cg problem.
LaySq   == { <<<<1, 0>>, <<1, 1>>>>, <<<<1, -1>>, <<-1, 0>>>> }
LayTall == { <<<<1, -1>>, <<1, 1>>, <<0, 1>>>> }
LayWide == { <<<<1, -1>>>> }
CgLay ==
         CgProblemsL("cgls", 2, 2, LaySq, {<<2, -1>>}, {<<1, -1>>}, {0, 1}, {<<>>}, LayTriples \cup {NoLay})
    \cup CgProblemsL("cgls", 3, 2, LayTall, {<<-1, 2, 1>>}, {<<0, 1>>}, {0, 1}, {<<>>}, LayTriples \cup {NoLay})
    \cup CgProblemsL("cgls", 1, 2, LayWide, {<<2>>}, {<<1, 0>>}, {0}, {<<>>}, LayTriples \cup {NoLay})
    \cup CgProblemsL("pcgls", 2, 2, {<<<<1, 0>>, <<1, 1>>>>}, {<<2, -1>>}, {<<1, -1>>}, {0, 1}, Precs(2), LayTriples \cup {NoLay})
    \cup CgProblemsL("pcgls", 3, 2, LayTall, {<<-1, 2, 1>>}, {<<0, 1>>}, {1}, {<<<<1, -2>>, <<0, 1>>>>}, LayTriples \cup {NoLay})

IsPc(p)     == p.solver = "pcgls"
EffShift(p) == IF IsPc(p) /\ PcglsIgnoresShift THEN Zero ELSE R(p.shift)
PinvOf(p)   == QMInv(MR(p.P))                                     \* pcgls only
\* P^-1 v and P^-T v (identity for CGLS)
ApplyPinv(p, Pinv, v)   == IF IsPc(p) THEN QMV(Pinv, v) ELSE v
ApplyPinvT(p, Pinv, v)  == IF IsPc(p) THEN QMV(MT(Pinv), v) ELSE v

\* (transformed) normal residual of x: P^-T (A^T (b - A x) - shift x)
NormalRes(p, A, Pinv, sh, x) ==
    ApplyPinvT(p, Pinv, QVSub(QMV(MT(A), QVSub(VR(p.b), QMV(A, x))), QVScale(sh, x)))

\* 32-bit guard: the recurrences are followed as long as all numbers of the state are small; a problem whose
\* iterates grow beyond the bound is "abandoned": its prefix and its exact solution are still emitted.
SmallVec(v, B) == \A i \in 1..Len(v) : Abs(v[i][1]) <= B /\ v[i][2] <= B
Status(pr, x, r, s, p, gamma) ==
    LET B == IF pr.m >= 3 \/ pr.n >= 3 THEN MagBound3 ELSE MagBound
    IN IF gamma = Zero THEN "converged"
       ELSE IF SmallVec(x, B) /\ SmallVec(r, B) /\ SmallVec(s, B) /\ SmallVec(p, B) /\ SmallVec(<<gamma>>, B) THEN "iter"
       ELSE "abandoned"

CgInit(p) ==
    LET A == MR(p.A)  x == VR(p.x0)
        Pinv == IF IsPc(p) THEN PinvOf(p) ELSE <<>>
        r == F(QVSub(VR(p.b), QMV(A, x)))
        s == F(ApplyPinvT(p, Pinv, QVSub(QMV(MT(A), r), QVScale(EffShift(p), x))))
        gam == F(QNorm2(s))
    IN  /\ it' = [x |-> x, r |-> r, s |-> s, p |-> s, gamma |-> gam, k |-> 0, status |-> Status(p, x, r, s, s, gam)]
        /\ hist' = << [fwd |-> x, adj |-> r, x |-> x, s |-> s] >>

Iterate ==
    /\ Run("cg")
    /\ it.status = "iter"
    /\ LET A == MR(pb.A)  sh == EffShift(pb)
           Pinv  == IF IsPc(pb) THEN PinvOf(pb) ELSE <<>>
           t     == F(ApplyPinv(pb, Pinv, it.p))
           q     == F(QMV(A, t))
           delta == QAdd(QNorm2(q), QMul(sh, QNorm2(t)))
           alpha == F(QDiv(it.gamma, delta))
           x1    == F(Cast(pb.lay.x0, QAxpy(it.x, alpha, t)))                 \* x += alpha t, stored in the iterate buffer
           r1    == F(QAxpy(it.r, QNeg(alpha), q))
           s1    == F(ApplyPinvT(pb, Pinv, QVSub(QMV(MT(A), r1), QVScale(sh, x1))))
           gam1  == F(QNorm2(s1))
           p1    == F(QAxpy(s1, QDiv(gam1, it.gamma), it.p))
       IN /\ it' = [x |-> x1, r |-> r1, s |-> s1, p |-> p1, gamma |-> gam1, k |-> it.k + 1,
                    status |-> Status(pb, x1, r1, s1, p1, gam1)]
          /\ hist' = Append(hist, [fwd |-> t, adj |-> r1, x |-> x1, s |-> s1])
    /\ UNCHANGED <<pb, ph>>

\* ---- invariants of the cg machine ---------------------------------------
\* (an abandoned state holds numbers beyond the safe range: nothing is recomputed from it)
Live == Run("cg") /\ it.status # "abandoned"

ResidualInv ==
    Live => it.r = QVSub(VR(pb.b), QMV(MR(pb.A), it.x))

NormalResidualInv ==
    Live =>
        /\ it.s = NormalRes(pb, MR(pb.A), IF IsPc(pb) THEN PinvOf(pb) ELSE <<>>, EffShift(pb), it.x)
        /\ it.gamma = QNorm2(it.s)

FiniteTermination ==
    Run("cg") => /\ it.k <= pb.n
                      /\ (it.k = pb.n => it.gamma = Zero)

\* the residuals s_0, s_1, ... are mutually orthogonal (conjugate-gradient property)
Orthogonality ==
    Live => \A i \in 1..Len(hist) : \A j \in 1..Len(hist) : i < j => QDot(hist[i].s, hist[j].s) = Zero

\* at termination the (true) shifted normal equations hold
NormalEquations ==
    (Run("cg") /\ it.status = "converged") =>
        LET A == MR(pb.A)  AT == MT(A)
        IN QMV(QMAdd(QMM(AT, A), QMScale(R(pb.shift), MId(pb.n))), it.x) = QMV(AT, VR(pb.b))

\* without shift and preconditioner the iterate stays in x0 + range(A^T)  (minimum-norm correction)
KrylovRange ==
    (Run("cg") /\ pb.solver = "cgls" /\ pb.shift = 0) =>
        LET AT == MT(MR(pb.A))
            d  == QVSub(it.x, VR(pb.x0))
            Aug == F([i \in 1..pb.n |-> AT[i] \o <<d[i]>>])
        IN QRank(Aug) = QRank(AT)

\* the point the solver has to return, defined without the recurrences:
\*   (A^T A + shift I) non-singular: the solution of the normal equations;
\*   otherwise (under-determined, no shift): x0 + M A^T w with A M A^T w = b - A x0, M = P^-1 P^-T
\*   (the correction of minimal P-norm: conjugate gradients never leave x0 + range(M A^T)).
CgSolution(p) ==
    LET A == MR(p.A)  AT == MT(A)  b == VR(p.b)  x0 == VR(p.x0)
    IN IF p.m >= p.n \/ p.shift # 0
       THEN QSolve(QMAdd(QMM(AT, A), QMScale(R(p.shift), MId(p.n))), QMV(AT, b))
       ELSE LET MAT == IF IsPc(p) THEN QMM(QMM(PinvOf(p), MT(PinvOf(p))), AT) ELSE AT
                w   == QSolve(QMM(A, MAT), QVSub(b, QMV(A, x0)))
            IN QVAdd(x0, QMV(MAT, w))

SolutionReached ==
    (Run("cg") /\ it.status = "converged" /\ ~PcglsIgnoresShift) => it.x = CgSolution(pb)

EmitCg ==
    (Emit /\ Run("cg") /\ it.status # "iter") =>
        PrintT("@@CASE " \o ToJson([kind |-> "cg", solver |-> pb.solver, m |-> pb.m, n |-> pb.n, A |-> pb.A, b |-> pb.b,
                                    x0 |-> pb.x0, shift |-> pb.shift, P |-> pb.P, lay |-> pb.lay, k |-> it.k, status |-> it.status,
                                    xsol |-> CgSolution(pb), steps |-> hist]) \o " @@END")

(***************************************************************************)
(* kind "prox": projections and soft-thresholding                          *)
(***************************************************************************)
HalfInts(lo, hi) == { Q(i, 2) : i \in (2 * lo)..(2 * hi) }
Lat2(lo, hi) == { <<a, b>> : a \in HalfInts(lo, hi), b \in HalfInts(lo, hi) }

ILat2(lo, hi) == { <<R(a), R(b)>> : a \in lo..hi, b \in lo..hi }

RSign(a) == IF a[1] > 0 THEN One ELSE IF a[1] < 0 THEN QNeg(One) ELSE Zero
Soft(a, th) == QMul(RSign(a), RMax(QSub(RAbs(a), th), Zero))      \* sign(a) max(|a| - th, 0)
Clip(a, lo, up) == RMin(RMax(a, lo), up)                           \* finite bounds only

\* ---- extended reals for the bounds of a box ------------------------------
\* +infinity / -infinity as sentinels (a normalised rational never has denominator 0); no arithmetic is defined on
\* them, only the order.  JSON form: "Inf" / "-Inf".
PInf == <<1, 0>>
NInf == <<-1, 0>>
IsFin(a) == a[2] # 0
ELe(a, b) == IF a = NInf \/ b = PInf THEN TRUE ELSE IF a = PInf \/ b = NInf THEN FALSE ELSE RLe(a, b)
ELt(a, b) == ~ELe(b, a)
Ext(a) == IF a = PInf THEN "Inf" ELSE IF a = NInf THEN "-Inf" ELSE a
\* an admissible box: lower <= upper, lower < +inf, upper > -inf (non-empty subset of the reals)
BoxOk(lo, up) == \A i \in 1..Len(lo) : ELe(lo[i], up[i]) /\ lo[i] # PInf /\ up[i] # NInf

\* Euclidean projection of the finite number a onto [lo, up]: the piecewise definition
BoxProj1(a, lo, up) == IF ELt(a, lo) THEN lo ELSE IF ELt(up, a) THEN up ELSE a
BoxProj(x, lo, up) == F([i \in 1..Len(x) |-> BoxProj1(x[i], lo[i], up[i])])
InBox(z, lo, up) == \A i \in 1..Len(z) : ELe(lo[i], z[i]) /\ ELe(z[i], up[i])

\* boxes: lo / up are the EFFECTIVE bounds; form = how <<lower, upper>> are handed over:
\*   "none" (argument left out: the documented defaults lower = 0, upper = 1), "scalar" (one number, possibly +-inf,
\*   for all components), "vector" (one bound per component)
Bx(name, lf, uf, lo, up) == [name |-> name, form |-> <<lf, uf>>, lo |-> lo, up |-> up]
Boxes2 == { Bx("default", "none", "none",     <<Zero, Zero>>, <<One, One>>),
            Bx("scalar",  "scalar", "scalar", <<QNeg(One), QNeg(One)>>, <<Half, Half>>),
            Bx("vector",  "vector", "vector", <<QNeg(One), Zero>>, <<Zero, Half3>>),
            \* one default, the other bound given
            Bx("lower_given",  "scalar", "none", <<QNeg(Half), QNeg(Half)>>, <<One, One>>),
            Bx("upper_given",  "none", "vector", <<Zero, Zero>>, <<Half, Half3>>),
            \* one-sided and unbounded boxes
            Bx("lower_only_scalar", "scalar", "scalar", <<QNeg(Half), QNeg(Half)>>, <<PInf, PInf>>),
            Bx("upper_only_scalar", "scalar", "scalar", <<NInf, NInf>>, <<Half, Half>>),
            Bx("lower_only_vector", "vector", "vector", <<QNeg(One), Half>>, <<PInf, PInf>>),
            Bx("upper_only_vector", "vector", "vector", <<NInf, NInf>>, <<Zero, Half3>>),
            Bx("orthant",           "scalar", "scalar", <<Zero, Zero>>, <<PInf, PInf>>),
            Bx("free_scalar",       "scalar", "scalar", <<NInf, NInf>>, <<PInf, PInf>>),
            Bx("free_vector",       "vector", "vector", <<NInf, NInf>>, <<PInf, PInf>>),
            Bx("mixed_vector",      "vector", "vector", <<NInf, QNeg(Half)>>, <<Half, PInf>>),
            Bx("mixed_vector2",     "vector", "vector", <<Zero, NInf>>, <<One, PInf>>),
            Bx("mixed_forms",       "scalar", "vector", <<NInf, NInf>>, <<Half, PInf>>),
            Bx("default_lower_inf_upper", "none", "scalar", <<Zero, Zero>>, <<PInf, PInf>>),
            Bx("inf_lower_default_upper", "scalar", "none", <<NInf, NInf>>, <<One, One>>) }

NoBox == [form |-> <<"none", "none">>, lo |-> <<Zero, Zero>>, up |-> <<Zero, Zero>>]
ProxCases ==
       { [kind |-> "prox", op |-> "nonneg", x |-> x, th |-> Zero, gam |-> Zero, lam |-> Zero, box |-> "none",
          form |-> NoBox.form, lo |-> NoBox.lo, up |-> NoBox.up] : x \in Lat2(-2, 2) }
  \cup { [kind |-> "prox", op |-> "box", x |-> x, th |-> Zero, gam |-> Zero, lam |-> Zero, box |-> bx.name,
          form |-> bx.form, lo |-> bx.lo, up |-> bx.up] : x \in Lat2(-2, 2), bx \in Boxes2 }
  \cup { [kind |-> "prox", op |-> "l1", x |-> x, th |-> g, gam |-> g, lam |-> One, box |-> "none",
          form |-> NoBox.form, lo |-> NoBox.lo, up |-> NoBox.up] : x \in Lat2(-2, 2), g \in {Zero, Half, One, Half3} }
  \cup { [kind |-> "prox", op |-> "l1s", x |-> x, th |-> QMul(g, l), gam |-> g, lam |-> l, box |-> "none",
          form |-> NoBox.form, lo |-> NoBox.lo, up |-> NoBox.up] : x \in Lat2(-2, 2), g \in {Half, One}, l \in {Half, Two} }

ProxOut(c) ==
    CASE c.op = "nonneg"          -> F([i \in 1..2 |-> RMax(c.x[i], Zero)])
      [] c.op = "box"             -> BoxProj(c.x, c.lo, c.up)
      [] c.op \in {"l1", "l1s"}   -> F([i \in 1..2 |-> Soft(c.x[i], c.th)])

InSet(c, z) ==
    CASE c.op = "nonneg" -> \A i \in 1..2 : RLe(Zero, z[i])
      [] c.op = "box"    -> InBox(z, c.lo, c.up)
      [] OTHER           -> TRUE

L1(z) == QAdd(RAbs(z[1]), RAbs(z[2]))
DistSq(u, v) == QNorm2(QVSub(u, v))

\* Euclidean projection: in the set, closest among all lattice points of the set, variational inequality
ProjectionExact ==
    (Run("prox") /\ pb.op \in {"nonneg", "box"}) =>
        LET out == ProxOut(pb) IN
        /\ InSet(pb, out)
        /\ \A z \in Lat2(-2, 2) : InSet(pb, z) =>
              /\ RLe(DistSq(pb.x, out), DistSq(pb.x, z))
              /\ RLe(QDot(QVSub(pb.x, out), QVSub(z, out)), Zero)

\* laws of the piecewise box projection with extended bounds: the image of a finite point is finite, the map is
\* idempotent and the identity on the box, every component is the nearest point of [lo_i, up_i] (among the half-integers
\* of a larger window), and it agrees with the closed forms min(max(x, lo), up) / max(x, lo) / min(x, up) / x on
\* two-sided / lower-only / upper-only / unbounded components.  [0, +inf)^n is the non-negative orthant.
BoxProjectionLaws ==
    (Run("prox") /\ pb.op = "box") =>
        LET out == ProxOut(pb)  lo == pb.lo  up == pb.up IN
        /\ BoxOk(lo, up)
        /\ \A i \in 1..2 : IsFin(out[i])
        /\ BoxProj(out, lo, up) = out
        /\ (InBox(pb.x, lo, up) => out = pb.x)
        /\ \A i \in 1..2 : \A w \in HalfInts(-3, 3) :
              (ELe(lo[i], w) /\ ELe(w, up[i])) => RLe(RAbs(QSub(pb.x[i], out[i])), RAbs(QSub(pb.x[i], w)))
        /\ \A i \in 1..2 :
              out[i] = IF IsFin(lo[i]) /\ IsFin(up[i]) THEN Clip(pb.x[i], lo[i], up[i])
                       ELSE IF IsFin(lo[i]) THEN RMax(pb.x[i], lo[i])
                       ELSE IF IsFin(up[i]) THEN RMin(pb.x[i], up[i])
                       ELSE pb.x[i]
        /\ ((lo = <<Zero, Zero>> /\ up = <<PInf, PInf>>) => out = F([i \in 1..2 |-> RMax(pb.x[i], Zero)]))
        /\ (\A i \in 1..2 : pb.form[1] = "none" => lo[i] = Zero)               \* documented defaults
        /\ (\A i \in 1..2 : pb.form[2] = "none" => up[i] = One)
        /\ (pb.form[1] = "scalar" => lo[1] = lo[2]) /\ (pb.form[2] = "scalar" => up[1] = up[2])

\* proximal map of th*|.|_1: minimiser of 1/2|z-x|^2 + th|z|_1 on the lattice, and sub-gradient optimality
ProxL1Exact ==
    (Run("prox") /\ pb.op \in {"l1", "l1s"}) =>
        LET out == ProxOut(pb)
            phi(z) == QAdd(QMul(Half, DistSq(z, pb.x)), QMul(pb.th, L1(z)))
        IN /\ \A z \in Lat2(-2, 2) : RLe(phi(out), phi(z))
           /\ \A i \in 1..2 : IF out[i] # Zero THEN QSub(pb.x[i], out[i]) = QMul(pb.th, RSign(out[i]))
                                             ELSE RLe(RAbs(pb.x[i]), pb.th)

ExtV(v) == [i \in 1..Len(v) |-> Ext(v[i])]
EmitProx ==
    (Emit /\ Run("prox")) =>
        PrintT("@@CASE " \o ToJson([kind |-> "prox", op |-> pb.op, x |-> pb.x, gam |-> pb.gam, lam |-> pb.lam,
                                    box |-> pb.box, form |-> pb.form, lo |-> ExtV(pb.lo), up |-> ExtV(pb.up),
                                    out |-> ProxOut(pb)]) \o " @@END")

(***************************************************************************)
(* kind "kkt": problems constructed from their optimality system           *)
(***************************************************************************)
Unimod2Short == { <<<<1, 0>>, <<0, 1>>>>, <<<<1, 1>>, <<0, 1>>>>, <<<<0, -1>>, <<1, 1>>>>,
                  <<<<2, 1>>, <<1, 1>>>>, <<<<1, -1>>, <<1, 0>>>>, <<<<-1, 2>>, <<0, 1>>>> }
Det2(A) == A[1][1] * A[2][2] - A[1][2] * A[2][1]
Unimod2All == { A \in IMats(2, 2, {-1, 0, 1, 2}) : Det2(A) \in {-1, 1} }
Unimod3 == { <<<<1, 0, 0>>, <<1, 1, 0>>, <<0, -1, 1>>>>, <<<<1, 1, 0>>, <<0, 1, -1>>, <<1, 1, 1>>>>,
             <<<<0, 1, 0>>, <<-1, 0, 1>>, <<0, 0, 1>>>> }

\* regularisers: [h |-> "l1", lam], [h |-> "nonneg"], [h |-> "box", bform, lo, up]:
\*   bform "scalar": the extended reals lo / up bound every component;
\*   bform "vector": component i is bounded by vlo[i] / vup[i] (the first n entries are used).
\* One-sided and unbounded boxes have PInf / NInf bounds; the solution and its multipliers stay finite.
Rg(h, lam, bf, lo, up, vlo, vup) == [h |-> h, lam |-> lam, bform |-> bf, lo |-> lo, up |-> up, vlo |-> vlo, vup |-> vup]
Regs == { Rg("l1", One, "none", Zero, Zero, <<>>, <<>>), Rg("l1", Half, "none", Zero, Zero, <<>>, <<>>),
          Rg("l1", Two, "none", Zero, Zero, <<>>, <<>>),
          Rg("nonneg", Zero, "none", Zero, Zero, <<>>, <<>>),
          Rg("box", Zero, "scalar", Zero, One, <<>>, <<>>), Rg("box", Zero, "scalar", QNeg(One), Two, <<>>, <<>>),
          Rg("box", Zero, "scalar", Zero, PInf, <<>>, <<>>),               \* lower bound only
          Rg("box", Zero, "scalar", NInf, One, <<>>, <<>>),                \* upper bound only
          Rg("box", Zero, "scalar", NInf, PInf, <<>>, <<>>),               \* no bound: plain least squares
          Rg("box", Zero, "vector", Zero, Zero, <<NInf, Zero, QNeg(One)>>, <<One, PInf, PInf>>) }   \* mixed per component

LoAt(rg, i) == IF rg.bform = "vector" THEN rg.vlo[i] ELSE rg.lo
UpAt(rg, i) == IF rg.bform = "vector" THEN rg.vup[i] ELSE rg.up

\* admissible pairs <<xs_i, g_i>> of coordinate i: g_i in the sub-differential of h at xs_i
BoxPairs(lo, up) ==
    IF IsFin(lo) /\ IsFin(up)
      THEN { <<lo, Zero>>, <<lo, R(-2)>>, <<QMul(Half, QAdd(lo, up)), Zero>>, <<up, Zero>>, <<up, One>> }
    ELSE IF IsFin(lo) THEN { <<lo, Zero>>, <<lo, R(-2)>>, <<QAdd(lo, Half3), Zero>> }
    ELSE IF IsFin(up) THEN { <<up, Zero>>, <<up, One>>, <<QSub(up, Two), Zero>> }
    ELSE { <<Half, Zero>>, <<R(-1), Zero>> }
BoxPairs3(lo, up) ==
    IF IsFin(lo) /\ IsFin(up) THEN { <<lo, R(-2)>>, <<QMul(Half, QAdd(lo, up)), Zero>>, <<up, Zero>> }
    ELSE IF IsFin(lo) THEN { <<lo, R(-2)>>, <<QAdd(lo, Half3), Zero>> }
    ELSE IF IsFin(up) THEN { <<up, One>>, <<QSub(up, Two), Zero>> }
    ELSE { <<Half, Zero>>, <<R(-1), Zero>> }

Pairs(rg, i) ==
    CASE rg.h = "l1" ->
            { <<R(-1), QNeg(rg.lam)>>, <<R(2), rg.lam>>, <<Half, rg.lam>>,
              <<Zero, Zero>>, <<Zero, QMul(Half, rg.lam)>>, <<Zero, QNeg(rg.lam)>> }
      [] rg.h = "nonneg" ->
            { <<One, Zero>>, <<Half3, Zero>>, <<Zero, Zero>>, <<Zero, R(-1)>>, <<Zero, R(-3)>> }
      [] rg.h = "box" -> BoxPairs(LoAt(rg, i), UpAt(rg, i))

InSubdiff(rg, i, xi, gi) ==
    CASE rg.h = "l1"     -> IF xi # Zero THEN gi = QMul(rg.lam, RSign(xi)) ELSE RLe(RAbs(gi), rg.lam)
      [] rg.h = "nonneg" -> RLe(Zero, xi) /\ (IF xi = Zero THEN RLe(gi, Zero) ELSE gi = Zero)
      [] rg.h = "box"    -> LET lo == LoAt(rg, i)  up == UpAt(rg, i) IN
                            /\ ELe(lo, xi) /\ ELe(xi, up)
                            /\ (xi = lo => RLe(gi, Zero)) /\ (xi = up => RLe(Zero, gi))
                            /\ ((xi # lo /\ xi # up) => gi = Zero)         \* no multiplier without an active FINITE bound

\* for n = 3 only three pairs per coordinate (interior, boundary with zero and with non-zero multiplier)
PairsN(rg, n, i) ==
    IF n = 2 THEN Pairs(rg, i)
    ELSE CASE rg.h = "l1"     -> { <<R(-1), QNeg(rg.lam)>>, <<Zero, QMul(Half, rg.lam)>>, <<Zero, QNeg(rg.lam)>> }
           [] rg.h = "nonneg" -> { <<Half3, Zero>>, <<Zero, Zero>>, <<Zero, R(-3)>> }
           [] rg.h = "box"    -> BoxPairs3(LoAt(rg, i), UpAt(rg, i))

\* all choices of one admissible pair per coordinate
PairChoices(rg, n) ==
    LET all == UNION { PairsN(rg, n, i) : i \in 1..n }
    IN { pr \in [1..n -> all] : \A i \in 1..n : pr[i] \in PairsN(rg, n, i) }

KktProblems(As, n) ==
    UNION { { [kind |-> "kkt", n |-> n, A |-> A, reg |-> rg, xs |-> [i \in 1..n |-> pr[i][1]], g |-> [i \in 1..n |-> pr[i][2]]] :
                A \in As, pr \in PairChoices(rg, n) } : rg \in Regs }

KktAll == IF Level = 1 THEN KktProblems(Unimod2Short, 2)
          ELSE KktProblems(Unimod2All, 2) \cup KktProblems(Unimod3, 3)

\* b = A xs + A^-T g
KktB(c) == LET A == MR(c.A) IN QVAdd(QMV(A, c.xs), QMV(MT(QMInv(A)), c.g))

ProxH(rg, z, t) ==
    CASE rg.h = "l1"     -> F([i \in 1..Len(z) |-> Soft(z[i], QMul(t, rg.lam))])
      [] rg.h = "nonneg" -> F([i \in 1..Len(z) |-> RMax(z[i], Zero)])
      [] rg.h = "box"    -> F([i \in 1..Len(z) |-> BoxProj1(z[i], LoAt(rg, i), UpAt(rg, i))])

FrobSq(A) == QSumSeq([i \in 1..Len(A) |-> QDot(A[i], A[i])])
\* two step sizes below 1/L (L = |A|_2^2 <= |A|_F^2)
KktSteps(c) == LET f == FrobSq(MR(c.A)) IN << QInv(f), QInv(QMul(Two, f)) >>

HVal(rg, z) == IF rg.h = "l1" THEN QMul(rg.lam, QSumSeq([i \in 1..Len(z) |-> RAbs(z[i])])) ELSE Zero
InDom(rg, z) ==
    CASE rg.h = "l1"     -> TRUE
      [] rg.h = "nonneg" -> \A i \in 1..Len(z) : RLe(Zero, z[i])
      [] rg.h = "box"    -> \A i \in 1..Len(z) : ELe(LoAt(rg, i), z[i]) /\ ELe(z[i], UpAt(rg, i))
Objective(A, b, rg, z) == QAdd(QMul(Half, QNorm2(QVSub(QMV(A, z), b))), HVal(rg, z))

KktFixedPoint ==
    Run("kkt") =>
        LET A == MR(pb.A)  AT == MT(A)  b == KktB(pb)
            grad == QMV(AT, QVSub(QMV(A, pb.xs), b))
            st == KktSteps(pb)
        IN /\ \A i \in 1..pb.n : b[i][2] \in {1, 2, 4}                           \* dyadic data: exact in floating point
           /\ grad = F([i \in 1..pb.n |-> QNeg(pb.g[i])])                        \* stationarity: -grad = g
           /\ \A i \in 1..pb.n : InSubdiff(pb.reg, i, pb.xs[i], pb.g[i])         \* g in dh(xs)
           /\ \A i \in 1..pb.n : IsFin(pb.xs[i]) /\ IsFin(pb.g[i])               \* finite certificate, also for infinite bounds
           /\ \A t \in {st[1], st[2], One, R(3)} :                                \* fixed point for EVERY step
                 ProxH(pb.reg, QVSub(pb.xs, QVScale(t, grad)), t) = pb.xs

\* xs minimises the objective over the neighbouring lattice points of the domain (n = 2)
KktMinimiser ==
    (Run("kkt") /\ pb.n = 2) =>
        LET A == MR(pb.A)  b == KktB(pb)  f0 == Objective(A, b, pb.reg, pb.xs)
        IN \A d \in Lat2(-1, 1) :                                                \* convex: local = global
              LET z == QVAdd(pb.xs, d) IN
              (d # <<Zero, Zero>> /\ InDom(pb.reg, z)) => RLt(f0, Objective(A, b, pb.reg, z))   \* strict: unique

EmitKkt ==
    (Emit /\ Run("kkt")) =>
        PrintT("@@CASE " \o ToJson([kind |-> "kkt", n |-> pb.n, A |-> pb.A, b |-> KktB(pb), h |-> pb.reg.h, lam |-> pb.reg.lam,
                                    bform |-> pb.reg.bform,
                                    lo |-> [i \in 1..pb.n |-> Ext(LoAt(pb.reg, i))], up |-> [i \in 1..pb.n |-> Ext(UpAt(pb.reg, i))],
                                    xs |-> pb.xs, g |-> pb.g,
                                    steps |-> KktSteps(pb)]) \o " @@END")

(***************************************************************************)
(* kind "lm": sums of squares 1/2 |res(x)|^2 with known stationary points  *)
(*   fam "lin"  : res(x) = B x - c                    (unique: normal equations)   *)
(*   fam "sq"   : res(x) = (x1^2 - a^2, x2 - d)       (x1 in {0, a, -a}, x2 = d)   *)
(*   fam "para" : res(x) = (x1 - a, c (x2 - x1^2))    (unique root (a, a^2))       *)
(***************************************************************************)
LmB == { <<<<1, 0>>, <<0, 1>>, <<1, 1>>>>, <<<<1, -1>>, <<2, 1>>, <<0, 1>>>>, <<<<2, 1>>, <<1, 1>>>> }
LmProblems ==
       { [kind |-> "lm", fam |-> "lin", B |-> B, c |-> [i \in 1..Len(B) |-> IF i = 1 THEN c1 ELSE i], a |-> 0, d |-> 0] :
            B \in LmB, c1 \in {-1, 3} }
  \cup { [kind |-> "lm", fam |-> "sq", B |-> <<>>, c |-> <<>>, a |-> a, d |-> d] : a \in {1, 2}, d \in {-1, 3} }
  \cup { [kind |-> "lm", fam |-> "para", B |-> <<>>, c |-> <<>>, a |-> a, d |-> d] : a \in {-1, 2}, d \in {1, 2} }

LmRes(c, x) ==
    CASE c.fam = "lin"  -> QVSub(QMV(MR(c.B), x), VR(c.c))
      [] c.fam = "sq"   -> << QSub(QSq(x[1]), R(c.a * c.a)), QSub(x[2], R(c.d)) >>
      [] c.fam = "para" -> << QSub(x[1], R(c.a)), QMul(R(c.d), QSub(x[2], QSq(x[1]))) >>
LmJac(c, x) ==
    CASE c.fam = "lin"  -> MR(c.B)
      [] c.fam = "sq"   -> << <<QMul(Two, x[1]), Zero>>, <<Zero, One>> >>
      [] c.fam = "para" -> << <<One, Zero>>, <<QMul(R(-2 * c.d), x[1]), R(c.d)>> >>
LmGrad(c, x) == QMV(MT(LmJac(c, x)), LmRes(c, x))

LmStat(c) ==
    CASE c.fam = "lin"  -> LET B == MR(c.B) IN { QSolve(QMM(MT(B), B), QMV(MT(B), VR(c.c))) }
      [] c.fam = "sq"   -> { <<R(c.a), R(c.d)>>, <<R(-c.a), R(c.d)>>, <<Zero, R(c.d)>> }
      [] c.fam = "para" -> { <<R(c.a), R(c.a * c.a)>> }

LmA == <<-3, -1, 0, 1, 4>>
LmBv == <<-2, 0, 1, 5>>
LmStarts == [i \in 1..20 |-> << R(LmA[((i - 1) \div 4) + 1]), R(LmBv[((i - 1) % 4) + 1]) >>]

LmStationary ==
    Run("lm") =>
        /\ \A xs \in LmStat(pb) : LmGrad(pb, xs) = <<Zero, Zero>>
        /\ (pb.fam # "lin" => \E xs \in LmStat(pb) : LmRes(pb, xs) = <<Zero, Zero>>)
        \* completeness on the lattice: no other lattice point is stationary
        /\ \A z \in Lat2(-3, 5) : LmGrad(pb, z) = <<Zero, Zero>> => z \in LmStat(pb)

EmitLm ==
    (Emit /\ Run("lm")) =>
        PrintT("@@CASE " \o ToJson([kind |-> "lm", fam |-> pb.fam, B |-> pb.B, c |-> pb.c, a |-> pb.a, d |-> pb.d,
                                    stat |-> LmStat(pb), starts |-> LmStarts,
                                    g0 |-> [i \in 1..20 |-> LmGrad(pb, LmStarts[i])]])
               \o " @@END")

(***************************************************************************)
(* kind "wrap": SciPy wrappers                                             *)
(*   objectives (record fn = [obj, a, c]; c is always the optimum):        *)
(*     "quad": f(x) = sense * 1/2 sum_i a_i (x_i - c_i)^2                   *)
(*     "para": f(x) = sense * 1/2 |(x1 - a1, a2 (x2 - x1^2))|^2   (c = (a1, a1^2); not quadratic: the   *)
(*             stopping parameters of the algorithms decide where they stop)                          *)
(*   (sense = 1: to be minimised, -1: to be maximised); the wrapper hands   *)
(*   Sign * f to SciPy and returns SciPy's x unchanged.                     *)
(*   The documented keyword arguments go to the SciPy target unchanged      *)
(*   (L_BFGS_B -> scipy.optimize.fmin_l_bfgs_b, minimize / maximize ->      *)
(*   scipy.optimize.minimize) or renamed by LsArgMap (LS -> least_squares). *)
(***************************************************************************)
WrapSign(w) == IF w = "maximize" /\ ~MaximizeDropsSign THEN -1 ELSE 1

InfoMap(w) ==
    CASE w \in {"minimize", "maximize"} ->
            [success |-> "success", message |-> "message", func |-> "fun", grad |-> "jac", nit |-> "nit", nfev |-> "nfev"]
      [] w = "LS" ->
            [success |-> "success", message |-> "message", func |-> "fun", jac |-> "jac", nfev |-> "nfev"]
      [] w = "L_BFGS_B" ->
            [func |-> "f", grad |-> "d.grad", nit |-> "d.nit", nfev |-> "d.funcalls"]

\* L_BFGS_B: warnflag -> <<success, message>> ("task" = SciPy's own task string)
WarnMap == [wf \in 0..2 |->
              CASE wf = 0 -> <<1, "Optimization terminated successfully.">>
                [] wf = 1 -> <<0, "Terminated due to too many function evaluations or too many iterations.">>
                [] wf = 2 -> <<0, "task">>]

\* argument renaming of LS
LsArgMap == [jac |-> "jacfun", method |-> "method", loss |-> "loss", xtol |-> "tol", max_nfev |-> "maxit"]

\* ---- keyword arguments: values a cfg / a 32-bit integer cannot hold are written m * 10^e ---------------------
Sci(m, e)     == [t |-> "sci", m |-> m, e |-> e]
IntV(n)       == [t |-> "int", n |-> n]
BoxV(lo, up)  == [t |-> "bounds", lo |-> lo, up |-> up]             \* one (lo_i, up_i) per component, rationals
DictV(items)  == [t |-> "dict", items |-> items]
StrV(s)       == [t |-> "str", s |-> s]
Kw(k, v)      == [k |-> k, v |-> v]
WrapBox == BoxV(<<R(-2), R(-2)>>, <<Half, Half>>)

\* L_BFGS_B(func, x0, gradfunc, **kwargs): kwargs are those of scipy.optimize.fmin_l_bfgs_b
LbfgsOpts == [ default  |-> <<>>,
               tight    |-> << Kw("maxiter", IntV(50)), Kw("pgtol", Sci(1, -10)) >>,
               factr1   |-> << Kw("factr", Sci(1, 1)) >>,
               factr3   |-> << Kw("factr", Sci(1, 3)) >>,
               factr12  |-> << Kw("factr", Sci(1, 12)) >>,
               pgtolm   |-> << Kw("pgtol", Sci(1, -9)), Kw("m", IntV(3)) >>,
               m1       |-> << Kw("m", IntV(1)) >>,
               maxiter2 |-> << Kw("maxiter", IntV(2)) >>,
               maxfun4  |-> << Kw("maxfun", IntV(4)) >>,
               maxls2   |-> << Kw("maxls", IntV(2)) >>,
               bounds   |-> << Kw("bounds", WrapBox) >>,
               epsilon  |-> << Kw("epsilon", Sci(1, -3)) >> ]

\* minimize / maximize(func, x0, gradfunc, method, **kwargs): kwargs are those of scipy.optimize.minimize
MinOpts == [ default |-> <<>>,
             tol     |-> << Kw("tol", Sci(1, -10)) >>,
             maxiter |-> << Kw("options", DictV(<< Kw("maxiter", IntV(3)) >>)) >>,
             bounds  |-> << Kw("bounds", WrapBox) >> ]

\* LS(func, x0, jacfun, method, loss, tol, maxit): the three last ones (method is a field of the case)
LsOpts == [ tight   |-> << Kw("loss", StrV("linear")),  Kw("tol", Sci(1, -9)), Kw("maxit", IntV(500)) >>,
            loose   |-> << Kw("loss", StrV("linear")),  Kw("tol", Sci(1, -3)), Kw("maxit", IntV(500)) >>,
            few     |-> << Kw("loss", StrV("linear")),  Kw("tol", Sci(1, -9)), Kw("maxit", IntV(3)) >>,
            soft_l1 |-> << Kw("loss", StrV("soft_l1")), Kw("tol", Sci(1, -9)), Kw("maxit", IntV(500)) >>,
            huber   |-> << Kw("loss", StrV("huber")),   Kw("tol", Sci(1, -9)), Kw("maxit", IntV(500)) >>,
            cauchy  |-> << Kw("loss", StrV("cauchy")),  Kw("tol", Sci(1, -9)), Kw("maxit", IntV(500)) >>,
            arctan  |-> << Kw("loss", StrV("arctan")),  Kw("tol", Sci(1, -9)), Kw("maxit", IntV(500)) >> ]

OptTable(w) == CASE w = "L_BFGS_B" -> LbfgsOpts [] w = "LS" -> LsOpts [] OTHER -> MinOpts
OptsOf(w)   == DOMAIN OptTable(w)
BaseOpt(w)  == CASE w = "L_BFGS_B" -> "tight" [] w = "LS" -> "tight" [] OTHER -> "default"

MethodsOf(w) ==
    CASE w \in {"minimize", "maximize"} -> {"default", "Nelder-Mead", "Powell", "CG", "BFGS", "Newton-CG", "L-BFGS-B", "TNC",
                                            "COBYLA", "SLSQP", "trust-constr"}
      [] w = "LS"       -> {"trf", "dogbox", "lm"}
      [] w = "L_BFGS_B" -> {"default"}

\* ---- objectives ------------------------------------------------------------------------------------------
ParaRec(fn) == [fam |-> "para", B |-> <<>>, c |-> <<>>, a |-> fn.a[1], d |-> fn.a[2]]
WrapObjs == { [obj |-> "quad", a |-> <<1, 2>>, c |-> <<1, -2>>],  [obj |-> "quad", a |-> <<1, 2>>, c |-> <<0, 3>>],
              [obj |-> "para", a |-> <<-1, 1>>, c |-> <<-1, 1>>], [obj |-> "para", a |-> <<2, 2>>, c |-> <<2, 4>>] }
ObjF(fn, z) ==
    IF fn.obj = "quad" THEN QMul(Half, QSumSeq([i \in 1..2 |-> QMul(R(fn.a[i]), QSq(QSub(z[i], R(fn.c[i]))))]))
    ELSE QMul(Half, QNorm2(LmRes(ParaRec(fn), z)))
ObjGrad(fn, z) ==
    IF fn.obj = "quad" THEN [i \in 1..2 |-> QMul(R(fn.a[i]), QSub(z[i], R(fn.c[i])))]
    ELSE LmGrad(ParaRec(fn), z)

\* which wrapper x method x objective x start x options are emitted (everything with the base options on the
\* quadratics as before; the other options / the non-quadratic objective on a sub-grid)
OptMethods  == {"default", "L-BFGS-B", "Nelder-Mead", "SLSQP", "TNC"}
ParaMethods == {"default", "BFGS", "L-BFGS-B", "Nelder-Mead"}
WrapValid(k) ==
    LET w == k.wrapper  base == k.opt = BaseOpt(k.wrapper) IN
    CASE w \in {"minimize", "maximize"} ->
              \/ (k.obj = "quad" /\ base)
              \/ (k.obj = "quad" /\ k.c = <<1, -2>> /\ k.x0 = <<2, 1>> /\ k.method \in OptMethods)
              \/ (k.obj = "para" /\ k.x0 = <<0, 0>> /\ k.method \in ParaMethods /\ k.opt \in {"default", "tol"})
      [] w = "LS" ->
              \/ (k.obj = "quad" /\ (base \/ (k.c = <<1, -2>> /\ k.x0 = <<2, 1>>)))
              \/ (k.obj = "para" /\ k.x0 = <<0, 0>> /\ k.opt \in {"tight", "loose"})
      [] w = "L_BFGS_B" -> k.obj = "quad" \/ k.x0 = <<0, 0>>

WrapCasesOf(w) ==
    { [kind |-> "wrap", wrapper |-> w, method |-> me, obj |-> fn.obj, a |-> fn.a, c |-> fn.c, x0 |-> x0, grad |-> gr, opt |-> op] :
        me \in MethodsOf(w), fn \in WrapObjs, x0 \in {<<0, 0>>, <<2, 1>>}, gr \in BOOLEAN, op \in OptsOf(w) }
WrapCases == UNION { {k \in WrapCasesOf(w) : WrapValid(k)} : w \in {"minimize", "maximize", "LS", "L_BFGS_B"} }

Sense(w) == IF w = "maximize" THEN -1 ELSE 1
FnOf(k) == [obj |-> k.obj, a |-> k.a, c |-> k.c]
\* value of the user's function and of the function SciPy sees
UserF(k, z)  == QMul(R(Sense(k.wrapper)), ObjF(FnOf(k), z))
SciPyF(k, z) == QMul(R(WrapSign(k.wrapper)), UserF(k, z))
SciPyGrad(k, z) == LET g == ObjGrad(FnOf(k), z) IN [i \in 1..2 |-> QMul(R(WrapSign(k.wrapper) * Sense(k.wrapper)), g[i])]

\* what SciPy is asked to minimise has its minimum at the point the user asked for
WrapRelation ==
    Run("wrap") =>
        LET cs == VR(pb.c) IN
        /\ SciPyGrad(pb, cs) = <<Zero, Zero>>
        /\ \A z \in ILat2(-3, 3) : RLe(SciPyF(pb, cs), SciPyF(pb, z))
        /\ (pb.wrapper = "maximize" => \A z \in ILat2(-3, 3) : RLe(UserF(pb, z), UserF(pb, cs)))

EmitWrap ==
    (Emit /\ Run("wrap")) =>
        PrintT("@@CASE " \o ToJson([kind |-> "wrap", wrapper |-> pb.wrapper, method |-> pb.method, obj |-> pb.obj, a |-> pb.a, c |-> pb.c,
                                    x0 |-> pb.x0, grad |-> pb.grad, opt |-> pb.opt, kw |-> OptTable(pb.wrapper)[pb.opt],
                                    sign |-> WrapSign(pb.wrapper), sense |-> Sense(pb.wrapper),
                                    info |-> InfoMap(pb.wrapper),
                                    warn |-> IF pb.wrapper = "L_BFGS_B" THEN [wf \in 1..3 |-> WarnMap[wf - 1]] ELSE <<>>,
                                    args |-> IF pb.wrapper = "LS" THEN LsArgMap ELSE [none |-> "none"]]) \o " @@END")

(***************************************************************************)
(* kind "seq": ONE solver object, a sequence of public operations          *)
(*                                                                         *)
(*   pb.fam : the class (cgls, pcgls, fista, lm, L_BFGS_B, minimize,        *)
(*            maximize, LS);  pb.ops : the operands it is constructed with  *)
(*            (record; the field names are the public attribute names).     *)
(*   it.ops : the operands the object holds now;                            *)
(*   it.cache : derived data kept between calls: {} or {A^T b}              *)
(*            (back-projected data of the linear solvers).                  *)
(*   Solve : runs the solver on it.ops (using / filling the cache) and      *)
(*            appends the set of admissible end points ({} = not specified: *)
(*            too few iterations allowed / loose tolerance);                *)
(*   SetOp : reassigns ONE public operand to another value of its pool and  *)
(*            clears the cache when the operand enters it.                  *)
(*   A behaviour has SeqLen operations, at most SeqSets of them SetOp, the  *)
(*   last one a Solve.                                                      *)
(***************************************************************************)
SqAs   == { <<<<1, 0>>, <<1, 1>>>>, <<<<1, -1>>, <<0, 1>>>>, <<<<0, 1>>, <<-1, 1>>>> }
TallAs == { <<<<1, 0>>, <<0, 1>>, <<1, 1>>>>, <<<<1, -1>>, <<2, 1>>, <<0, 1>>>> }
SeqCgBig == 8          \* iterations that are enough for n = 2
SeqCgTight == 10       \* tol = 10^-10 (an operand "tol" is the exponent)
SeqItBig == 20000      \* fista / lm: "enough" iterations

FistaAs == { <<<<1, 0>>, <<0, 1>>>>, <<<<1, 1>>, <<0, 1>>>>, <<<<0, -1>>, <<1, 1>>>>, <<<<1, -1>>, <<1, 0>>>> }
FistaBs == { <<2, -1>>, <<-1, 2>>, <<0, 2>>, <<-2, -1>> }
FistaRegs == { Rg("l1", One, "none", Zero, Zero, <<>>, <<>>), Rg("nonneg", Zero, "none", Zero, Zero, <<>>, <<>>),
               Rg("box", Zero, "scalar", Zero, One, <<>>, <<>>), Rg("box", Zero, "scalar", QNeg(One), Two, <<>>, <<>>),
               Rg("box", Zero, "scalar", NInf, One, <<>>, <<>>), Rg("box", Zero, "scalar", NInf, PInf, <<>>, <<>>) }
FistaX0s == { <<3, -2>>, <<0, 0>>, <<-3, 2>> }
Third == Q(1, 3)
Sixth == Q(1, 6)

LinRec(B, c) == [fam |-> "lin", B |-> B, c |-> c, a |-> 0, d |-> 0]
LmSeqStarts == { LmStarts[1], LmStarts[8], LmStarts[18] }

SeqFn1 == [obj |-> "quad", a |-> <<1, 2>>, c |-> <<1, -2>>]
SeqFn2 == [obj |-> "quad", a |-> <<1, 2>>, c |-> <<0, 3>>]
SeqFn3 == [obj |-> "para", a |-> <<-1, 1>>, c |-> <<-1, 1>>]

SeqBase(fam, ops) == [kind |-> "seq", fam |-> fam, ops |-> ops]
SeqBases ==
    { SeqBase("cgls", [A |-> <<<<1, 0>>, <<1, 1>>>>, b |-> <<2, -1>>, x0 |-> <<0, 0>>, shift |-> 0, maxit |-> SeqCgBig, tol |-> SeqCgTight]),
      SeqBase("cgls", [A |-> <<<<1, -1>>, <<2, 1>>, <<0, 1>>>>, b |-> <<-1, 2, 1>>, x0 |-> <<1, -1>>, shift |-> 1, maxit |-> SeqCgBig, tol |-> SeqCgTight]),
      SeqBase("cgls", [A |-> <<<<1, -1>>, <<0, 1>>>>, b |-> <<-1, 2>>, x0 |-> <<1, -1>>, shift |-> 1, maxit |-> 1, tol |-> SeqCgTight]),
      SeqBase("cgls", [A |-> <<<<0, 1>>, <<-1, 1>>>>, b |-> <<2, -1>>, x0 |-> <<1, -1>>, shift |-> 0, maxit |-> SeqCgBig, tol |-> 1]),
      SeqBase("pcgls", [A |-> <<<<1, 0>>, <<1, 1>>>>, b |-> <<2, -1>>, x0 |-> <<0, 0>>, P |-> <<<<1, 0>>, <<1, 1>>>>, shift |-> 0, maxit |-> SeqCgBig, tol |-> SeqCgTight]),
      SeqBase("pcgls", [A |-> <<<<1, -1>>, <<2, 1>>, <<0, 1>>>>, b |-> <<-1, 2, 1>>, x0 |-> <<1, -1>>, P |-> <<<<1, -2>>, <<0, 1>>>>, shift |-> 1, maxit |-> SeqCgBig, tol |-> SeqCgTight]),
      SeqBase("fista", [A |-> <<<<1, 1>>, <<0, 1>>>>, b |-> <<2, -1>>, x0 |-> <<3, -2>>, proximal |-> Rg("l1", One, "none", Zero, Zero, <<>>, <<>>),
                        stepsize |-> Third, adaptive |-> FALSE, maxit |-> SeqItBig]),
      SeqBase("fista", [A |-> <<<<0, -1>>, <<1, 1>>>>, b |-> <<0, 2>>, x0 |-> <<0, 0>>, proximal |-> Rg("box", Zero, "scalar", QNeg(One), Two, <<>>, <<>>),
                        stepsize |-> Sixth, adaptive |-> TRUE, maxit |-> SeqItBig]),
      SeqBase("fista", [A |-> <<<<1, -1>>, <<1, 0>>>>, b |-> <<-1, 2>>, x0 |-> <<-3, 2>>, proximal |-> Rg("nonneg", Zero, "none", Zero, Zero, <<>>, <<>>),
                        stepsize |-> Third, adaptive |-> FALSE, maxit |-> 1]),
      SeqBase("lm", [A |-> LinRec(<<<<1, -1>>, <<2, 1>>, <<0, 1>>>>, <<-1, 2, 3>>), x0 |-> LmStarts[8], maxit |-> SeqItBig]),
      SeqBase("lm", [A |-> [fam |-> "para", B |-> <<>>, c |-> <<>>, a |-> 2, d |-> 1], x0 |-> LmStarts[1], maxit |-> 1]),
      SeqBase("L_BFGS_B", [func |-> SeqFn1, x0 |-> <<0, 0>>, gradfunc |-> FALSE, kwargs |-> "tight"]),
      SeqBase("L_BFGS_B", [func |-> SeqFn3, x0 |-> <<0, 0>>, gradfunc |-> TRUE, kwargs |-> "factr3"]),
      SeqBase("minimize", [func |-> SeqFn1, x0 |-> <<2, 1>>, gradfunc |-> FALSE, method |-> "default", kwargs |-> "default"]),
      SeqBase("minimize", [func |-> SeqFn2, x0 |-> <<0, 0>>, gradfunc |-> TRUE, method |-> "L-BFGS-B", kwargs |-> "maxiter"]),
      SeqBase("maximize", [func |-> SeqFn1, x0 |-> <<2, 1>>, gradfunc |-> TRUE, method |-> "default", kwargs |-> "default"]),
      SeqBase("LS", [func |-> SeqFn1, x0 |-> <<0, 0>>, jacfun |-> TRUE, method |-> "trf", loss |-> "linear", tol |-> 9, maxit |-> 500]),
      SeqBase("LS", [func |-> SeqFn2, x0 |-> <<2, 1>>, jacfun |-> FALSE, method |-> "lm", loss |-> "linear", tol |-> 3, maxit |-> 3]) }

\* the public operands that can be reassigned (PCGLS keeps all of them in private attributes: Solve only)
SeqFields(fam) ==
    CASE fam = "cgls"     -> {"A", "b", "x0", "shift", "maxit", "tol"}
      [] fam = "pcgls"    -> {}
      [] fam = "fista"    -> {"A", "b", "x0", "proximal", "stepsize", "adaptive", "maxit"}
      [] fam = "lm"       -> {"A", "x0", "maxit"}
      [] fam = "L_BFGS_B" -> {"func", "x0", "gradfunc", "kwargs"}
      [] fam = "minimize" -> {"func", "x0", "gradfunc", "method", "kwargs"}
      [] fam = "maximize" -> {"x0", "method", "kwargs"}          \* func / gradfunc hold the NEGATED callables: not reassigned
      [] fam = "LS"       -> {"func", "x0", "jacfun", "method", "loss", "tol", "maxit"}    \* tol = 10^-tol

IsWrapFam(fam) == fam \in {"L_BFGS_B", "minimize", "maximize", "LS"}

\* the values operand f may be reassigned to (shapes are kept: a new A has the shape of the old one)
SeqPool(fam, o, f) ==
    CASE fam = "cgls" ->
            (CASE f = "A"     -> IF Len(o.A) = 2 THEN SqAs ELSE TallAs
               [] f = "b"     -> IF Len(o.A) = 2 THEN {<<2, -1>>, <<-1, 2>>} ELSE {<<2, -1, 0>>, <<-1, 2, 1>>}
               [] f = "x0"    -> {<<0, 0>>, <<1, -1>>}
               [] f = "shift" -> {0, 1}
               [] f = "maxit" -> {1, SeqCgBig}
               [] f = "tol"   -> {1, SeqCgTight})
      [] fam = "fista" ->
            (CASE f = "A"        -> FistaAs
               [] f = "b"        -> FistaBs
               [] f = "x0"       -> FistaX0s
               [] f = "proximal" -> FistaRegs
               [] f = "stepsize" -> {Third, Sixth}
               [] f = "adaptive" -> BOOLEAN
               [] f = "maxit"    -> {1, SeqItBig})
      [] fam = "lm" ->
            (CASE f = "A"     -> IF o.A.fam = "lin" THEN { LinRec(o.A.B, c) : c \in {<<-1, 2, 3>>, <<3, 2, 3>>, <<0, 1, -2>>} } ELSE {o.A}
               [] f = "x0"    -> LmSeqStarts
               [] f = "maxit" -> {1, SeqItBig})
      [] IsWrapFam(fam) ->
            (CASE f = "func"     -> IF fam = "LS" THEN {SeqFn1, SeqFn2} ELSE {SeqFn1, SeqFn2, SeqFn3}
               [] f = "x0"       -> {<<0, 0>>, <<2, 1>>}
               [] f \in {"gradfunc", "jacfun"} -> BOOLEAN
               [] f = "method"   -> IF fam = "LS" THEN MethodsOf("LS") ELSE {"default", "L-BFGS-B", "BFGS", "Nelder-Mead"}
               [] f = "kwargs"   -> IF fam = "L_BFGS_B" THEN {"tight", "default", "factr1", "factr12", "maxiter2", "bounds"}
                                    ELSE {"default", "tol", "maxiter"}
               [] f = "loss"     -> {"linear", "huber", "soft_l1"}
               [] f = "tol"      -> {9, 3}
               [] f = "maxit"    -> {500, 3})

\* ---- what Solve returns ---------------------------------------------------------------------------------
\* back-projected data A^T b of the linear solvers ({} for the others)
SeqBackProj(fam, o) == IF fam \in {"cgls", "pcgls", "fista"} THEN { QMV(MT(MR(o.A)), VR(o.b)) } ELSE {}

\* fixed points on the lattice of  x -> prox_{t h}(x - t (A^T A x - c))   (c = A^T b for the operands themselves)
FistaFix(o, c) ==
    LET A == MR(o.A)  G == F(QMM(MT(A), A))  t == o.stepsize
    IN { x \in Lat2(-3, 3) : ProxH(o.proximal, QVSub(x, QVScale(t, QVSub(QMV(G, x), c))), t) = x }

\* the fixed point is the minimiser: it does not depend on the (admissible) step.  The lattice search for c = A^T b is
\* therefore made ONCE per (A, b, regulariser) of the pools (constant table, one step), and SeqOptimality verifies the
\* fixed-point identity of the point found for the step the object holds and for two more.
FistaTable ==
    F([A \in FistaAs |-> F([b \in FistaBs |-> F([rg \in FistaRegs |->
          FistaFix([A |-> A, stepsize |-> Sixth, proximal |-> rg], QMV(MT(MR(A)), VR(b)))])])])
FistaFixOps(o) == FistaTable[o.A][o.b][o.proximal]

\* is the end point of a Solve on these operands specified?  (conjugate gradients: at least n = 2 iterations and a
\* tight tolerance; fista / lm: enough iterations; the wrappers return whatever SciPy returns: the relation is
\* always specified, expected point = the optimum of the objective)
SeqSpecified(fam, o) ==
    CASE fam \in {"cgls", "pcgls"} -> o.maxit >= 2 /\ o.tol >= 8
      [] fam \in {"fista", "lm"}   -> o.maxit = SeqItBig
      [] OTHER -> TRUE

\* admissible end points of a run that uses the back-projected data cc (a set with one vector, or {})
SeqSolveWith(fam, o, cc) ==
    CASE fam \in {"cgls", "pcgls"} ->
            LET A == MR(o.A) IN
            { QSolve(QMAdd(QMM(MT(A), A), QMScale(R(o.shift), MId(2))), c) : c \in cc }        \* full column rank: unique
      [] fam = "fista" -> IF cc = SeqBackProj(fam, o) THEN FistaFixOps(o) ELSE UNION { FistaFix(o, c) : c \in cc }
      [] fam = "lm"    -> LmStat(o.A)
      [] OTHER         -> { VR(o.func.c) }

SeqExpected(fam, o) == IF SeqSpecified(fam, o) THEN SeqSolveWith(fam, o, SeqBackProj(fam, o)) ELSE {}

\* operands a SetOp may produce: a proximal-gradient problem keeps a lattice solution and a step below 1/L;
\* a new objective keeps the derivative the object holds valid (gradfunc: only without one; LS: same Jacobian)
SeqAdmissible(fam, f, o, o2) ==
    CASE fam = "fista" -> /\ RLe(QMul(o2.stepsize, FrobSq(MR(o2.A))), One)
                          /\ FistaFixOps(o2) # {}
      [] fam \in {"L_BFGS_B", "minimize"} -> (f = "func" => ~o.gradfunc)
      [] fam = "LS" -> (f = "func" => o2.func.a = o.func.a /\ o2.func.obj = o.func.obj)
      [] OTHER -> TRUE

NSets(h) == Cardinality({ i \in 1..Len(h) : h[i].act = "set" })
SeqG0(fam, o) == IF fam = "lm" THEN LmGrad(o.A, o.x0) ELSE <<>>

SeqStart(p) == /\ it' = [ops |-> p.ops, cache |-> {}]
               /\ hist' = <<>>

Solve ==
    /\ Run("seq")
    /\ Len(hist) < SeqLen
    /\ LET o  == it.ops
           cc == IF it.cache # {} THEN it.cache ELSE SeqBackProj(pb.fam, o)
           e  == IF SeqSpecified(pb.fam, o) THEN SeqSolveWith(pb.fam, o, cc) ELSE {}
       IN /\ it' = [it EXCEPT !.cache = cc]
          /\ hist' = Append(hist, [act |-> "solve", field |-> "", ops |-> o, exp |-> e, g0 |-> SeqG0(pb.fam, o)])
    /\ UNCHANGED <<pb, ph>>

SetOp ==
    /\ Run("seq")
    /\ Len(hist) < SeqLen - 1
    /\ NSets(hist) < SeqSets
    /\ \E f \in SeqFields(pb.fam) : \E v \in SeqPool(pb.fam, it.ops, f) :
          /\ v # it.ops[f]
          /\ LET o2 == [it.ops EXCEPT ![f] = v] IN
             /\ SeqAdmissible(pb.fam, f, it.ops, o2)
             \* the cache holds A^T b: a new b clears it, and so does a new A (unless the deviation is on)
             /\ it' = [ops |-> o2, cache |-> IF f = "b" \/ (f = "A" /\ ~StaleCachedOperand) THEN {} ELSE it.cache]
             /\ hist' = Append(hist, [act |-> "set", field |-> f, ops |-> o2, exp |-> {}, g0 |-> <<>>])
    /\ UNCHANGED <<pb, ph>>

\* ---- invariants -------------------------------------------------------------------------------------------
\* hist only grows and every reachable state is checked: it is enough to look at the operation made last
SeqSolves == IF Len(hist) > 0 /\ hist[Len(hist)].act = "solve" THEN {Len(hist)} ELSE {}

\* the end point expected from a Solve depends only on the operands the object holds at that moment
SeqCurrentOperands ==
    Run("seq") => \A i \in SeqSolves : hist[i].exp = SeqExpected(pb.fam, hist[i].ops)

\* ... and satisfies the optimality system of these operands, stated without the solution operators
SeqOptimal(fam, o, x) ==
    CASE fam \in {"cgls", "pcgls"} ->
            LET A == MR(o.A)  AT == MT(A)
            IN QMV(QMAdd(QMM(AT, A), QMScale(R(o.shift), MId(2))), x) = QMV(AT, VR(o.b))
      [] fam = "fista" ->
            LET A == MR(o.A)  grad == QMV(MT(A), QVSub(QMV(A, x), VR(o.b)))
            IN /\ RLe(QMul(o.stepsize, FrobSq(A)), One)
               /\ InDom(o.proximal, x)
               /\ \A t \in {o.stepsize, One, R(3)} : ProxH(o.proximal, QVSub(x, QVScale(t, grad)), t) = x
               /\ \A d \in Lat2(-1, 1) : LET z == QVAdd(x, d) IN
                     (d # <<Zero, Zero>> /\ InDom(o.proximal, z)) =>
                         RLt(Objective(A, VR(o.b), o.proximal, x), Objective(A, VR(o.b), o.proximal, z))
      [] fam = "lm" -> LmGrad(o.A, x) = <<Zero, Zero>>
      [] OTHER -> /\ ObjGrad(o.func, x) = <<Zero, Zero>>
                  /\ \A z \in ILat2(-3, 3) : RLe(ObjF(o.func, x), ObjF(o.func, z))

SeqOptimality ==
    Run("seq") => \A i \in SeqSolves :
        LET o == hist[i].ops  e == hist[i].exp IN
        /\ (SeqSpecified(pb.fam, o) => e # {})
        /\ (pb.fam # "lm" => Cardinality(e) <= 1)
        /\ \A x \in e : SeqOptimal(pb.fam, o, x)

\* the closed form used for the conjugate-gradient families is the solution operator of kind "cg"
SeqCgAgrees ==
    (Run("seq") /\ pb.fam \in {"cgls", "pcgls"}) => \A i \in SeqSolves :
        LET o == hist[i].ops IN
        SeqSpecified(pb.fam, o) =>
            hist[i].exp = { CgSolution([solver |-> pb.fam, m |-> Len(o.A), n |-> 2, A |-> o.A, b |-> o.b, x0 |-> o.x0, shift |-> o.shift,
                                        P |-> IF pb.fam = "pcgls" THEN o.P ELSE <<>>]) }

\* shape of a behaviour: at most SeqSets reassignments, the last operation is a Solve
SeqShape ==
    Run("seq") => /\ Len(hist) <= SeqLen /\ NSets(hist) <= SeqSets
                  /\ (Len(hist) = SeqLen => hist[SeqLen].act = "solve")

\* JSON form of the operands: extended-real bounds as "Inf" / "-Inf", keyword tables by name AND content
RegJson(rg) == [h |-> rg.h, lam |-> rg.lam, bform |-> rg.bform, lo |-> [i \in 1..2 |-> Ext(LoAt(rg, i))], up |-> [i \in 1..2 |-> Ext(UpAt(rg, i))]]
SeqOpsJson(fam, o) ==
    CASE fam = "fista" -> [o EXCEPT !.proximal = RegJson(@)]
      [] fam \in {"L_BFGS_B", "minimize", "maximize"} -> [o EXCEPT !.kwargs = [name |-> @, kw |-> OptTable(fam)[@]]]
      [] OTHER -> o

EmitSeq ==
    (Emit /\ Run("seq") /\ Len(hist) = SeqLen) =>
        PrintT("@@CASE " \o ToJson([kind |-> "seq", fam |-> pb.fam, ops |-> SeqOpsJson(pb.fam, pb.ops),
                                    sense |-> IF pb.fam = "maximize" THEN -1 ELSE 1,
                                    info |-> IF IsWrapFam(pb.fam) THEN InfoMap(pb.fam) ELSE [none |-> "none"],
                                    warn |-> IF pb.fam = "L_BFGS_B" THEN [wf \in 1..3 |-> WarnMap[wf - 1]] ELSE <<>>,
                                    events |-> [i \in 1..Len(hist) |->
                                                  [act |-> hist[i].act, field |-> hist[i].field, ops |-> SeqOpsJson(pb.fam, hist[i].ops),
                                                   exp |-> hist[i].exp, g0 |-> hist[i].g0]]]) \o " @@END")

(***************************************************************************)
(* kind "cgill": ILL-CONDITIONED least-squares problems constructed from   *)
(* their (shifted) normal equations.                                       *)
(*                                                                         *)
(* FiniteTermination (k <= n) is a theorem of EXACT arithmetic.  The       *)
(* contract of the implementation is its stopping rule: it iterates until  *)
(* |s_k| <= tol |s_0| or k = maxit, and in floating point that takes MORE  *)
(* than n iterations as soon as the columns of A are nearly collinear.     *)
(* The exact iterates of such problems are far beyond 32-bit rationals, so *)
(* these problems are specified in POSTCONDITION form (as kind kkt): the    *)
(* spec constructs A, b, shift and the point xs, TLC verifies exactly that  *)
(* xs is THE solution of (A^T A + shift I) x = A^T b (normal residual zero,*)
(* full column rank), that the data are dyadic (exact in binary floating   *)
(* point) and that the shifted normal matrix is ill-conditioned (two       *)
(* Rayleigh quotients); the replayer requires the point returned for a     *)
(* LARGE maxit and a TINY tol to be xs.                                    *)
(*                                                                         *)
(*   Asq   = all ones + diag(0, pat_1, pat_2, ...) 2^-k   (det = prod pat_i 2^-k: the inverse is dyadic)   *)
(*   A     = Asq, or Asq with the sum of its rows appended (tall; g = (1..1,-1) rho is orthogonal to range(A))      *)
(*   b     = A xs + g + shift h,   h = (Asq^-T xs, 0):   A^T g = 0, A^T h = xs                                    *)
(***************************************************************************)
IllN(p)     == Len(p.pat) + 1
IllM(p)     == IF p.tall THEN IllN(p) + 1 ELSE IllN(p)
IllEps(p)   == Q(1, IPow(2, p.k))
IllShift(p) == IF p.shexp = 0 THEN Zero ELSE Q(1, IPow(2, p.shexp))
IllSq(p)    == LET n == IllN(p) IN
               F([i \in 1..n |-> F([j \in 1..n |-> IF i = j /\ i > 1 THEN QAdd(One, QMul(R(p.pat[i - 1]), IllEps(p))) ELSE One])])
IllA(p)     == LET n == IllN(p)  Sq == IllSq(p) IN
               IF p.tall THEN F(Append(Sq, F([j \in 1..n |-> QSumSeq([i \in 1..n |-> Sq[i][j]])]))) ELSE Sq
IllXsAll    == <<1, -2, 3, -1>>
IllXs(p)    == F([i \in 1..IllN(p) |-> R(IllXsAll[i])])
IllRho      == 2
IllG(p)     == F([i \in 1..IllM(p) |-> IF ~p.tall THEN Zero ELSE IF i <= IllN(p) THEN R(IllRho) ELSE R(-IllRho)])
IllH(p)     == LET h == QMV(MT(QMInv(IllSq(p))), IllXs(p)) IN IF p.tall THEN F(Append(h, Zero)) ELSE h
IllB(p)     == F(QVAdd(QVAdd(QMV(IllA(p), IllXs(p)), IllG(p)), QVScale(IllShift(p), IllH(p))))

IllX0s(n) == { [i \in 1..n |-> 0], [i \in 1..n |-> IF i = n THEN -1 ELSE 1] }
IllPats(n) == IF n = 3 THEN { <<1, 1>>, <<1, -1>>, <<1, 2>> } ELSE { <<1, -1, 2>>, <<1, 2, -2>> }
IllPrecs(sv, n) == IF sv = "cgls" THEN {<<>>} ELSE IF n = 3 THEN Precs(3) ELSE { <<<<1, 0, 0, 0>>, <<1, 1, 0, 0>>, <<0, -1, 1, 0>>, <<0, 0, 2, 1>>>> }
IllTolExp == 13        \* tol = 10^-13
IllMaxit  == 500       \* two orders of magnitude above n
IllCasesOf(sv, n, Ks, Ses) ==
    { [kind |-> "cgill", solver |-> sv, k |-> k, pat |-> pat, tall |-> tl, shexp |-> se, x0 |-> x0, P |-> P] :
        k \in Ks, pat \in IllPats(n), tl \in BOOLEAN, se \in Ses, x0 \in IllX0s(n), P \in IllPrecs(sv, n) }
IllCases ==
    UNION { IllCasesOf(sv, 3, IF Level >= 2 THEN {8, 9, 10} ELSE {8, 10}, IF Level >= 2 THEN {0, 16, 20} ELSE {0, 20})
            \cup (IF Level >= 2 THEN IllCasesOf(sv, 4, {8}, {0, 20}) ELSE {}) : sv \in {"cgls", "pcgls"} }

RECURSIVE IsPow2(_)
IsPow2(d) == d = 1 \/ (d > 1 /\ d % 2 = 0 /\ IsPow2(d \div 2))
Dyadic(v) == \A i \in 1..Len(v) : IsPow2(v[i][2])

\* xs solves the shifted normal equations (normal residual A^T (b - A xs) - shift xs = 0, evaluated in this order: the numbers
\* stay small) and is their only solution (full column rank); the data are exact binary floating-point numbers
IllSolutionExact ==
    Run("cgill") =>
        LET A == IllA(pb)  b == IllB(pb)  xs == IllXs(pb)  sh == IllShift(pb)  n == IllN(pb) IN
        /\ QVSub(QMV(MT(A), QVSub(b, QMV(A, xs))), QVScale(sh, xs)) = F([i \in 1..n |-> Zero])
        /\ QRank(A) = n
        /\ QMV(MT(A), IllG(pb)) = F([i \in 1..n |-> Zero])
        /\ \A i \in 1..Len(A) : Dyadic(A[i])
        /\ Dyadic(b) /\ Dyadic(<<sh>>)

\* the shifted normal matrix M = A^T A + shift I has a Rayleigh quotient >= n (at e_1) and one <= 2^-IllCondBits (at
\* e_1 - e_2, the difference of two nearly collinear columns): cond(M) >= n 2^IllCondBits
IllCondBits == 12
IllConditioned ==
    Run("cgill") =>
        LET A == IllA(pb)  n == IllN(pb)  sh == IllShift(pb)
            e1 == F([i \in 1..n |-> IF i = 1 THEN One ELSE Zero])
            v  == F([i \in 1..n |-> IF i = 1 THEN One ELSE IF i = 2 THEN QNeg(One) ELSE Zero])
        IN /\ RLe(R(n), QAdd(QNorm2(QMV(A, e1)), sh))
           /\ RLe(QAdd(QDiv(QNorm2(QMV(A, v)), QNorm2(v)), sh), Q(1, IPow(2, IllCondBits)))

EmitIll ==
    (Emit /\ Run("cgill")) =>
        PrintT("@@CASE " \o ToJson([kind |-> "cgill", solver |-> pb.solver, m |-> IllM(pb), n |-> IllN(pb), k |-> pb.k, pat |-> pb.pat,
                                    tall |-> pb.tall, shexp |-> pb.shexp, A |-> IllA(pb), b |-> IllB(pb), x0 |-> pb.x0,
                                    shift |-> IllShift(pb), P |-> pb.P, xsol |-> IllXs(pb), tolexp |-> IllTolExp, maxit |-> IllMaxit,
                                    condbits |-> IllCondBits]) \o " @@END")

(***************************************************************************)
(* kind "proc": ONE PROCESS, a LIST of different problems solved one after *)
(* the other by DIFFERENT wrapper objects (actions Call).                  *)
(*                                                                         *)
(*   pb.list : the calls of the list (a set; TLC explores every order);     *)
(*   it.amb  : ambient state of the process that outlives a call (module    *)
(*             level variables, default arguments shared between calls):    *)
(*             the intended design has NONE (0);                            *)
(*   hist    : the calls made so far, each with the iteration limit its     *)
(*             SciPy target works under.                                    *)
(* A call is a wrapper x method x objective x start x documented keyword    *)
(* arguments.  Its outcome is a function of ITS OWN arguments: the limit is *)
(* the user's maxiter if given, else the documented default of the SciPy    *)
(* method for the dimension of THIS problem (DocLimit) - never something a  *)
(* previous (smaller or larger) problem left behind (CallsIndependent).     *)
(* The lists mix small problems with problems / methods that need many      *)
(* iterations (Nelder-Mead on a Rosenbrock-type chain polynomial in 5       *)
(* variables, L-BFGS-B / CG on quadratics with condition number 4^11 / 4^7).*)
(* Named deviation DefaultsLeakBetweenCalls: the limit 200 n of the first   *)
(* default / BFGS / CG call stays behind and governs every later call.      *)
(*                                                                         *)
(* objectives of any dimension (fn = [obj, a, c]; c is always the optimum): *)
(*   "quad"  : 1/2 sum_i a_i (x_i - c_i)^2                                  *)
(*   "chain" : 1/2 [ sum_{i<n} (x_i - 1)^2 + a_1 sum_{i<n} (x_{i+1} - x_i^2)^2 ]     (c = (1, ..., 1))              *)
(***************************************************************************)
NObjF(fn, z) ==
    LET n == Len(z) IN
    IF fn.obj = "quad" THEN QMul(Half, QSumSeq([i \in 1..n |-> QMul(R(fn.a[i]), QSq(QSub(z[i], R(fn.c[i]))))]))
    ELSE QMul(Half, QAdd(QSumSeq([i \in 1..(n - 1) |-> QSq(QSub(z[i], One))]),
                         QMul(R(fn.a[1]), QSumSeq([i \in 1..(n - 1) |-> QSq(QSub(z[i + 1], QSq(z[i])))]))))
NObjGrad(fn, z) ==
    LET n == Len(z)  a == R(fn.a[1]) IN
    IF fn.obj = "quad" THEN F([i \in 1..n |-> QMul(R(fn.a[i]), QSub(z[i], R(fn.c[i])))])
    ELSE F([i \in 1..n |->
              QAdd(IF i < n THEN QSub(QSub(z[i], One), QMul(QMul(Two, a), QMul(QSub(z[i + 1], QSq(z[i])), z[i]))) ELSE Zero,
                   IF i > 1 THEN QMul(a, QSub(z[i], QSq(z[i - 1]))) ELSE Zero)])

Pow4(n)  == [i \in 1..n |-> IPow(4, i - 1)]
Ones(n)  == [i \in 1..n |-> 1]
Zeros(n) == [i \in 1..n |-> 0]
Alt(n)   == [i \in 1..n |-> IF i % 2 = 1 THEN -1 ELSE 0]
QuadFn(a)     == [obj |-> "quad", a |-> a, c |-> Ones(Len(a))]
ChainFn(n, a) == [obj |-> "chain", a |-> <<a>>, c |-> Ones(n)]

PC(name, w, me, fn, x0, gr, opt) ==
    [name |-> name, wrapper |-> w, method |-> me, obj |-> fn.obj, a |-> fn.a, c |-> fn.c, x0 |-> x0, grad |-> gr, opt |-> opt]
ProcCalls ==
    [ small1 |-> PC("small1", "minimize", "default", QuadFn(<<2>>), <<0>>, TRUE, "default"),
      small2 |-> PC("small2", "minimize", "default", QuadFn(<<1, 2>>), <<0, 3>>, TRUE, "default"),
      smallb |-> PC("smallb", "minimize", "BFGS", QuadFn(<<3>>), <<2>>, FALSE, "default"),
      opt3   |-> PC("opt3", "minimize", "default", QuadFn(<<1, 2>>), <<2, 1>>, TRUE, "maxiter"),
      nm5    |-> PC("nm5", "minimize", "Nelder-Mead", ChainFn(5, 4), Alt(5), FALSE, "default"),
      nm4    |-> PC("nm4", "minimize", "Nelder-Mead", ChainFn(4, 100), Alt(4), FALSE, "default"),
      pw4    |-> PC("pw4", "minimize", "Powell", ChainFn(4, 16), Alt(4), FALSE, "default"),
      lb12   |-> PC("lb12", "minimize", "L-BFGS-B", QuadFn(Pow4(12)), Zeros(12), TRUE, "default"),
      cg8    |-> PC("cg8", "minimize", "CG", QuadFn(Pow4(8)), Zeros(8), TRUE, "default"),
      maxcg8 |-> PC("maxcg8", "maximize", "CG", QuadFn(Pow4(8)), Zeros(8), TRUE, "default"),
      max3   |-> PC("max3", "maximize", "default", ChainFn(3, 16), Alt(3), TRUE, "default"),
      bf16   |-> PC("bf16", "minimize", "default", ChainFn(16, 100), Alt(16), TRUE, "default"),
      lbw12  |-> PC("lbw12", "L_BFGS_B", "default", QuadFn(Pow4(12)), Zeros(12), TRUE, "default"),
      ls2    |-> PC("ls2", "LS", "trf", QuadFn(<<1, 2>>), <<2, 1>>, TRUE, "tight") ]

\* the lists: each one has a small problem and one that needs many iterations; TLC explores every order
ProcLists ==
    { {"small1", "nm5"}, {"small2", "lb12"}, {"small1", "cg8", "maxcg8"}, {"opt3", "pw4", "lbw12"} }
    \cup (IF Level >= 2 THEN { {"smallb", "nm4", "ls2"}, {"small2", "max3", "bf16"}, {"small1", "small2", "nm5", "lb12"} } ELSE {})
ProcProblems == { [kind |-> "proc", list |-> L] : L \in ProcLists }

ProcDim(c) == Len(c.x0)
ProcKw(c)  == OptTable(c.wrapper)[c.opt]
\* the user's own iteration limit (0: none given): maxiter directly or inside options
ProcUserLimit(c) ==
    LET kw == ProcKw(c)
        direct == { kw[i].v.n : i \in { j \in 1..Len(kw) : kw[j].k = "maxiter" } }
        inopt  == UNION { { kw[i].v.items[j].v.n : j \in { l \in 1..Len(kw[i].v.items) : kw[i].v.items[l].k = "maxiter" } }
                          : i \in { j \in 1..Len(kw) : kw[j].k = "options" } }
    IN IF direct \cup inopt = {} THEN 0 ELSE CHOOSE v \in direct \cup inopt : TRUE
\* documented default iteration limits of the SciPy targets (scipy.optimize.minimize / fmin_l_bfgs_b / least_squares)
DocDefault(c) ==
    LET n == ProcDim(c) IN
    CASE c.wrapper = "L_BFGS_B" -> 15000
      [] c.wrapper = "LS"       -> 0                         \* max_nfev is an argument of the wrapper (maxit), not a default
      [] c.method \in {"default", "BFGS", "CG", "Nelder-Mead"} -> 200 * n
      [] c.method = "Powell"    -> 1000 * n
      [] c.method = "L-BFGS-B"  -> 15000
DocLimit(c) == IF ProcUserLimit(c) # 0 THEN ProcUserLimit(c) ELSE DocDefault(c)

LeakSets(c) == c.wrapper \in {"minimize", "maximize"} /\ c.method \in {"default", "BFGS", "CG"} /\ ProcUserLimit(c) = 0
ProcStart(p) == /\ it' = [amb |-> 0]
                /\ hist' = <<>>
Call ==
    /\ Run("proc")
    /\ \E nm \in pb.list :
          /\ \A i \in 1..Len(hist) : hist[i].call.name # nm
          /\ LET c    == ProcCalls[nm]
                 amb1 == IF DefaultsLeakBetweenCalls /\ it.amb = 0 /\ LeakSets(c) THEN 200 * ProcDim(c) ELSE it.amb
                 lim  == IF ProcUserLimit(c) # 0 THEN ProcUserLimit(c)
                         ELSE IF amb1 # 0 /\ c.wrapper \in {"minimize", "maximize"} THEN amb1 ELSE DocDefault(c)
             IN /\ it' = [amb |-> amb1]
                /\ hist' = Append(hist, [call |-> c, limit |-> lim])
    /\ UNCHANGED <<pb, ph>>

\* every call works under the limit its OWN arguments define, whatever was solved before in the process
CallsIndependent ==
    Run("proc") => \A i \in 1..Len(hist) : hist[i].limit = DocLimit(hist[i].call)

\* the optimum the spec names is the stationary point and a strict minimum along every coordinate direction
\* (of f for minimize / LS / L_BFGS_B; the maximiser of -f for maximize)
ProcOptimum ==
    (Run("proc") /\ Len(hist) = 0) => \A nm \in pb.list :                  \* once per list (the calls do not change)
        LET c == ProcCalls[nm]  fn == [obj |-> c.obj, a |-> c.a, c |-> c.c]  cs == VR(c.c)  n == ProcDim(c) IN
        /\ Len(c.c) = n /\ (c.obj = "quad" => Len(c.a) = n)
        /\ NObjGrad(fn, cs) = F([i \in 1..n |-> Zero])
        /\ \A i \in 1..n : \A s \in {-1, 1} :
              RLt(NObjF(fn, cs), NObjF(fn, F([j \in 1..n |-> IF j = i THEN QAdd(cs[j], R(s)) ELSE cs[j]])))
        /\ (n = 2 /\ c.obj = "quad" => \A z \in ILat2(-3, 3) : NObjF(fn, z) = ObjF(fn, z))        \* same family as kind wrap

ProcShape == Run("proc") => Len(hist) <= Cardinality(pb.list)

EmitProc ==
    (Emit /\ Run("proc") /\ Len(hist) = Cardinality(pb.list)) =>
        PrintT("@@CASE " \o ToJson([kind |-> "proc",
                                    calls |-> [i \in 1..Len(hist) |->
                                                 LET c == hist[i].call IN
                                                 [name |-> c.name, wrapper |-> c.wrapper, method |-> c.method, obj |-> c.obj, a |-> c.a, c |-> c.c,
                                                  x0 |-> c.x0, grad |-> c.grad, opt |-> c.opt, kw |-> ProcKw(c),
                                                  sign |-> WrapSign(c.wrapper), sense |-> Sense(c.wrapper), info |-> InfoMap(c.wrapper),
                                                  warn |-> IF c.wrapper = "L_BFGS_B" THEN [wf \in 1..3 |-> WarnMap[wf - 1]] ELSE <<>>,
                                                  limit |-> hist[i].limit, doclimit |-> DocLimit(c), dim |-> ProcDim(c)]]]) \o " @@END")

(***************************************************************************)
(* kind "lay": the LAYOUT dimension of the solvers that are specified in   *)
(* postcondition form (FISTA / ISTA, LM, the SciPy wrappers) and of the     *)
(* projections.  (CGLS / PCGLS: problems CgLay of kind "cg" above.)         *)
(*                                                                         *)
(*   pb.solver : "fista", "lm", "wrap", "prox"                              *)
(*   pb.prob   : the problem - a record of kind kkt / lm / wrap / prox      *)
(*   pb.x0     : the start vector (fista, lm, wrap; the point x of a prox)  *)
(*   pb.lay    : the layouts of A, b, x0 ("na": no such argument); for a    *)
(*               projection lay.x0 is the layout of the point and lay.b the *)
(*               layout of the bounds of the box                            *)
(* LaySolution : the admissible end points, defined from pb.prob alone;     *)
(* LayEnd      : what the iterate buffer holds when the run has converged   *)
(*               to them (Cast by the layout of the start vector).          *)
(***************************************************************************)
LayKktRec(A, rg, xs, g) == [kind |-> "kkt", n |-> 2, A |-> A, reg |-> rg, xs |-> xs, g |-> g]
LayA1 == <<<<1, 1>>, <<0, 1>>>>
LayA3 == <<<<0, -1>>, <<1, 1>>>>
LayKkt ==
    { \* l1, strength 1/2: integer right-hand side (1, -1), NON-integer minimiser
      LayKktRec(LayA1, Rg("l1", Half, "none", Zero, Zero, <<>>, <<>>), <<Half, Zero>>, <<Half, QNeg(Half)>>),
      \* l1, strength 1: everything integer
      LayKktRec(LayA1, Rg("l1", One, "none", Zero, Zero, <<>>, <<>>), <<R(-1), Zero>>, <<R(-1), Zero>>),
      \* non-negativity, minimiser (3/2, 0) with an active constraint
      LayKktRec(LayA1, Rg("nonneg", Zero, "none", Zero, Zero, <<>>, <<>>), <<Half3, Zero>>, <<Zero, R(-1)>>),
      \* box [0, 1]: interior component 1/2, active upper bound
      LayKktRec(LayA1, Rg("box", Zero, "scalar", Zero, One, <<>>, <<>>), <<Half, One>>, <<Zero, One>>),
      \* one-sided box (-inf, 1]: everything integer
      LayKktRec(LayA3, Rg("box", Zero, "scalar", NInf, One, <<>>, <<>>), <<R(-1), One>>, <<Zero, One>>) }
LayFistaX0 == { <<R(3), R(-2)>> }

LayLm == { [kind |-> "lm", fam |-> "lin", B |-> <<<<1, 0>>, <<0, 1>>, <<1, 1>>>>, c |-> <<-1, 2, 3>>, a |-> 0, d |-> 0],
           [kind |-> "lm", fam |-> "sq", B |-> <<>>, c |-> <<>>, a |-> 1, d |-> -1],
           [kind |-> "lm", fam |-> "para", B |-> <<>>, c |-> <<>>, a |-> 2, d |-> 1] }
LayLmX0 == { LmStarts[1], LmStarts[8] }

LayWrap == { [kind |-> "wrap", wrapper |-> w, method |-> IF w = "LS" THEN "trf" ELSE "default", obj |-> "quad", a |-> <<1, 2>>,
              c |-> <<1, -2>>, x0 |-> <<2, 1>>, grad |-> gr, opt |-> BaseOpt(w)] :
                w \in {"minimize", "maximize", "LS", "L_BFGS_B"}, gr \in BOOLEAN }

\* points: half-integer and integer ones
LayPts == { <<Q(-3, 2), Half>>, <<R(2), R(-1)>>, <<Zero, Half3>>, <<R(-1), Zero>>, <<Half, R(-2)>>, <<R(-2), R(2)>> }
LayIntBox == Bx("int_vector", "vector", "vector", <<R(-1), Zero>>, <<One, R(2)>>)        \* integer bounds: admissible as integer arrays
LayProx == { c \in ProxCases : /\ c.x \in LayPts
                              /\ (c.op = "box" => c.box \in {"default", "vector", "lower_only_vector", "mixed_vector"})
                              /\ (c.op = "l1" => c.gam \in {Half, One})
                              /\ c.op # "l1s" }
           \cup { [kind |-> "prox", op |-> "box", x |-> x, th |-> Zero, gam |-> Zero, lam |-> Zero, box |-> LayIntBox.name,
                   form |-> LayIntBox.form, lo |-> LayIntBox.lo, up |-> LayIntBox.up] : x \in LayPts }
\* layouts of a point (array_like): also (n,1) / (1,n) arrays and 0-d (each component on its own)
LayPt  == {"f64", "int", "f32", "view", "rev", "ro", "list", "col", "row", "scalar"}
LayBnd == {"f64", "int", "f32", "ro", "list", "view"}
HasVecBounds(c) == c.op = "box" /\ "vector" \in {c.form[1], c.form[2]}
LayProxLays(c) ==
    IF HasVecBounds(c)
      THEN { Lay("na", "f64", x) : x \in LayPt } \cup { Lay("na", b, "f64") : b \in LayBnd } \cup { Lay("na", l, l) : l \in LayBnd }
      ELSE { Lay("na", "na", x) : x \in LayPt }

LayAll ==
         { [kind |-> "lay", solver |-> "fista", prob |-> c, x0 |-> x0, lay |-> l] : c \in LayKkt, x0 \in LayFistaX0, l \in LayTriples \cup {NoLay} }
    \cup { [kind |-> "lay", solver |-> "lm", prob |-> c, x0 |-> x0, lay |-> l] : c \in LayLm, x0 \in LayLmX0, l \in LayStarts }
    \cup { [kind |-> "lay", solver |-> "wrap", prob |-> k, x0 |-> VR(k.x0), lay |-> l] : k \in LayWrap, l \in LayStarts }
    \cup UNION { { [kind |-> "lay", solver |-> "prox", prob |-> c, x0 |-> c.x, lay |-> l] : l \in LayProxLays(c) } : c \in LayProx }

FinIntVec(v) == \A i \in 1..Len(v) : IsFin(v[i]) /\ IsInt(v[i])
\* an integer layout is admissible only for integer data (the data ARE the exact numbers of the problem); float32 only for
\* dyadic data (exactly representable)
LayOk(p) ==
    /\ (p.lay.x0 = "int" => IntVec(p.x0))
    /\ (p.solver = "fista" => /\ Dyadic(KktB(p.prob))
                              /\ (p.lay.b = "int" => IntVec(KktB(p.prob))))
    /\ (p.solver = "prox" => (p.lay.b = "int" => FinIntVec(p.prob.lo) /\ FinIntVec(p.prob.up)))
LayProblems == { p \in LayAll : LayOk(p) }

LaySolution(p) ==
    CASE p.solver = "fista" -> { p.prob.xs }
      [] p.solver = "lm"    -> LmStat(p.prob)
      [] p.solver = "wrap"  -> { VR(p.prob.c) }
      [] p.solver = "prox"  -> { ProxOut(p.prob) }
LayEnd(p) == IF p.solver = "prox" THEN LaySolution(p) ELSE { Cast(p.lay.x0, x) : x \in LaySolution(p) }

\* the optimality system of the problem (no layout anywhere)
LayOptimal(p, x) ==
    CASE p.solver = "fista" ->
            LET c == p.prob  A == MR(c.A)  b == KktB(c)  grad == QMV(MT(A), QVSub(QMV(A, x), b))  st == KktSteps(c)
            IN /\ InDom(c.reg, x)
               /\ \A t \in {st[1], st[2], One} : ProxH(c.reg, QVSub(x, QVScale(t, grad)), t) = x
      [] p.solver = "lm"    -> LmGrad(p.prob, x) = <<Zero, Zero>>
      [] p.solver = "wrap"  -> /\ SciPyGrad(p.prob, x) = <<Zero, Zero>>
                               /\ \A z \in ILat2(-3, 3) : RLe(SciPyF(p.prob, x), SciPyF(p.prob, z))
      [] p.solver = "prox"  -> x = ProxOut(p.prob) /\ InSet(p.prob, x)

\* The end point does not depend on the layout of any argument: it is the solution of the problem without its layout and
\* satisfies the optimality system.  For the conjugate-gradient machine: the recurrence residual stays the residual of
\* the STORED iterate, and at termination the stored iterate is CgSolution (which reads A, b, x0, shift, P only).
LayoutIndependent ==
    /\ Run("lay") =>
          /\ LayOk(pb)
          /\ LayEnd(pb) = LaySolution(pb)
          /\ LayEnd(pb) # {}
          /\ \A x \in LayEnd(pb) : LayOptimal(pb, x)
    /\ (Live /\ pb.lay # NoLay) =>
          /\ IntMat(MR(pb.A)) /\ IntVec(VR(pb.b)) /\ IntVec(VR(pb.x0))
          /\ it.r = QVSub(VR(pb.b), QMV(MR(pb.A), it.x))
          /\ (it.status = "converged" => it.x = CgSolution([pb EXCEPT !.lay = NoLay]))

\* frame: no action changes the arguments of the problem (the replayer compares every argument buffer with a copy taken
\* before the call)
ArgumentsFrame == [][pb' = pb]_vars

LayJson(p) ==
    LET c == p.prob IN
    CASE p.solver = "fista" ->
            [kind |-> "lay", solver |-> "fista", lay |-> p.lay, x0 |-> p.x0, n |-> c.n, A |-> c.A, b |-> KktB(c), h |-> c.reg.h,
             lam |-> c.reg.lam, bform |-> c.reg.bform, lo |-> [i \in 1..c.n |-> Ext(LoAt(c.reg, i))],
             up |-> [i \in 1..c.n |-> Ext(UpAt(c.reg, i))], xs |-> c.xs, g |-> c.g, steps |-> KktSteps(c), exp |-> LayEnd(p)]
      [] p.solver = "lm" ->
            [kind |-> "lay", solver |-> "lm", lay |-> p.lay, x0 |-> p.x0, fam |-> c.fam, B |-> c.B, c |-> c.c, a |-> c.a, d |-> c.d,
             stat |-> LmStat(c), g0 |-> LmGrad(c, p.x0), exp |-> LayEnd(p)]
      [] p.solver = "wrap" ->
            [kind |-> "lay", solver |-> "wrap", lay |-> p.lay, wrapper |-> c.wrapper, method |-> c.method, obj |-> c.obj, a |-> c.a,
             c |-> c.c, x0 |-> c.x0, grad |-> c.grad, opt |-> c.opt, kw |-> OptTable(c.wrapper)[c.opt],
             sign |-> WrapSign(c.wrapper), sense |-> Sense(c.wrapper), info |-> InfoMap(c.wrapper),
             warn |-> IF c.wrapper = "L_BFGS_B" THEN [wf \in 1..3 |-> WarnMap[wf - 1]] ELSE <<>>,
             args |-> IF c.wrapper = "LS" THEN LsArgMap ELSE [none |-> "none"], exp |-> LayEnd(p)]
      [] p.solver = "prox" ->
            [kind |-> "lay", solver |-> "prox", lay |-> p.lay, op |-> c.op, x |-> c.x, gam |-> c.gam, lam |-> c.lam, box |-> c.box,
             form |-> c.form, lo |-> ExtV(c.lo), up |-> ExtV(c.up), out |-> ProxOut(c)]
EmitLay ==
    (Emit /\ Run("lay")) => PrintT("@@CASE " \o ToJson(LayJson(pb)) \o " @@END")

(***************************************************************************)
AllProblems ==
    (IF "cg" \in Kinds THEN CgAll ELSE {}) \cup (IF "prox" \in Kinds THEN ProxCases ELSE {})
    \cup (IF "kkt" \in Kinds THEN KktAll ELSE {}) \cup (IF "lm" \in Kinds THEN LmProblems ELSE {})
    \cup (IF "wrap" \in Kinds THEN WrapCases ELSE {})
    \cup (IF "seq" \in Kinds THEN SeqBases ELSE {})
    \cup (IF "cgill" \in Kinds THEN IllCases ELSE {}) \cup (IF "proc" \in Kinds THEN ProcProblems ELSE {})
    \cup (IF "lay" \in Kinds THEN CgLay \cup LayProblems ELSE {})

\* Init only chooses the problem; everything is computed by Start (TLC evaluates Init on one thread only)
Init == pb \in AllProblems /\ ph = "new" /\ it = <<>> /\ hist = <<>>

Start ==
    /\ ph = "new"
    /\ ph' = "run"
    /\ IF pb.kind = "cg" THEN CgInit(pb) ELSE IF pb.kind = "seq" THEN SeqStart(pb)
       ELSE IF pb.kind = "proc" THEN ProcStart(pb) ELSE UNCHANGED <<it, hist>>
    /\ UNCHANGED pb

Next == Start \/ Iterate \/ Solve \/ SetOp \/ Call
Spec == Init /\ [][Next]_vars
=============================================================================
