----------------------------- MODULE ModelGeomVec -----------------------------
(***************************************************************************)
(* Property C07, round 10 (EXTENDS ModelGeom; ModelGeom.tla is not edited).  *)
(*                                                                         *)
(* Part ARR - the CONTAINER of x and y.  forward / adjoint are documented    *)
(* as: "converts the input to function values (if needed) using the domain   *)
(* geometry OF THE MODEL"; "if x is CUQIarray and geometry are consistent,    *)
(* we obtain funvals directly; otherwise we use the geometry par2fun".  A     *)
(* CUQIarray of PARAMETERS may carry a geometry of the SAME CLASS and the     *)
(* SAME par_shape as the model's but ANOTHER MAP: Image2D order C vs F,       *)
(* StepExpansion on another grid (other number of nodes, same n_steps) or     *)
(* with another projection, MappedGeometry with another map, an expansion     *)
(* with another decay.  Such a geometry is not "consistent" with the model's: *)
(* the value is that for the plain parameter vector - H+ F G x with the       *)
(* MODEL's G, and for adjoint the model's range geometry in front.            *)
(*   ArrForward    Fwd(x carried) on all basis vectors = columns of Matrix     *)
(*   ArrAdjoint    <Fwd e_i, e_j> = <e_i, Adj e_j> with both carried           *)
(*                 (geometry pairs with orthogonal maps; elsewhere C07-F1)     *)
(*   ArrContainer  the function values the operator / its adjoint receives     *)
(*                 are those of the plain vector, for every geometry           *)
(* Deviation SameClassCarrierTrusted (funvals of the array's OWN geometry      *)
(* whenever class and par_shape agree - the seeded change) must violate.       *)
(*                                                                         *)
(* Part VEC - function pairs defined for VECTORS ONLY.  Every function pair    *)
(* of ModelGeom / ModelGeomFun acts column by column when it is handed a       *)
(* matrix (F @ X, X[::-1], X[::2]).  numpy calls without axis do not:          *)
(*    np.roll(x, 1)   np.flip(x)   np.cumsum(x)   np.roll(x, -2)[:n-2]          *)
(* flatten a matrix, treat it as ONE long vector and (roll, flip) give the      *)
(* shape back.  LinearModel documents functions of a parameter vector and      *)
(* get_matrix() "column by column from forward(e_i)".                          *)
(*   VecColumns    the assembled matrix = H+ V G, columns Fwd e_j               *)
(*   VecAdjoint    the supplied adjoint is the transpose of the operator       *)
(* Deviation MatrixFromForwardOfIdentity (one call forward(identity), used     *)
(* when the result has the shape of the matrix) must violate VecColumns.       *)
(***************************************************************************)
EXTENDS ModelGeom

CONSTANTS VWide        \* TRUE: every carrier for every configuration / wide pools

\* =============================================================================================================
\* part ARR
\* =============================================================================================================
\* carriers: same class, same par_shape (k), another par2fun.  kinds mapped2 / linexp2 exist only here.
StepOn(n, k, proj) == Geo("step", n, k, 1, n, proj,
                          CASE <<n, k>> = <<8, 4>> -> <<1, 1, 2, 2, 3, 3, 4, 4>> [] <<n, k>> = <<4, 2>> -> <<1, 1, 2, 2>>
                            [] <<n, k>> = <<6, 3>> -> <<1, 1, 2, 2, 3, 3>>       [] <<n, k>> = <<6, 2>> -> <<1, 1, 1, 2, 2, 2>>)
Carriers(g) ==
    CASE g.kind = "imgC" -> {[g EXCEPT !.kind = "imgF"]}
      [] g.kind = "imgF" -> {[g EXCEPT !.kind = "imgC"]}
      [] g.kind = "step" /\ g.proj = "mean" ->
             {[g EXCEPT !.proj = "max"]}                                                           \* same par2fun, other projection (harmless)
             \cup (CASE <<g.n, g.k>> = <<6, 4>> -> {StepOn(8, 4, "mean")} [] <<g.n, g.k>> = <<6, 2>> -> {StepOn(4, 2, "mean")}
                     [] <<g.n, g.k>> = <<4, 3>> -> {StepOn(6, 3, "mean")} [] <<g.n, g.k>> = <<4, 2>> -> {StepOn(6, 2, "mean")} [] OTHER -> {})
      [] g.kind = "mapped" -> {[g EXCEPT !.kind = "mapped2"]}
      [] g.kind = "linexp" -> {[g EXCEPT !.kind = "linexp2"]}
      [] OTHER -> {}
LinD2(n) == IF n = 6 THEN <<One, Q(1, 3), Q(1, 9)>> ELSE <<One, Q(1, 3)>>
\* par2fun / fun2par of a carried geometry
CGM(g)  == CASE g.kind = "mapped2" -> MT(MR(MapM(g.n)))                     \* unit LOWER triangular
             [] g.kind = "linexp2" -> MM(MR(LinQ(g.n)), MDiag(LinD2(g.n)))
             [] OTHER -> GM(g)
CGpM(g) == CASE g.kind = "mapped2" -> MInv(CGM(g))
             [] g.kind = "linexp2" -> LET G == CGM(g) IN MM(MInv(MM(MT(G), G)), MT(G))
             [] g.kind = "step" /\ g.proj # "mean" -> <<>>
             [] OTHER -> GpM(g)
ClassOf(g) == CASE g.kind \in {"imgC", "imgF"} -> "Image2D" [] g.kind \in {"mapped", "mapped2"} -> "MappedGeometry"
                [] g.kind \in {"linexp", "linexp2"} -> "expansion" [] OTHER -> g.kind
ArrOrtho(g) == F2PLinear(g) /\ GpM(g) = MT(GM(g))

\* the function values handed to the operator for a CUQIarray of parameters v that carries cg, in front of the model's geometry g
TwoFunArr(v, cg, g) ==
    IF cg = g THEN MV(CGM(cg), v)                                                       \* consistent: funvals directly (the same map)
    ELSE IF "SameClassCarrierTrusted" \in Dev /\ ClassOf(cg) = ClassOf(g) /\ cg.k = g.k
         THEN (IF Len(CGM(cg)) = g.n THEN MV(CGM(cg), v) ELSE IllTyped)             \* the deviation: the array's own map
    ELSE MV(GM(g), v)

ArrD(n) == { g \in LinGeoms(n) : Carriers(g) # {} }
ArrConfigs ==
    { [part |-> "ARR", mk |-> mk, dg |-> dg, rg |-> rg, fi |-> 1, cd |-> cd, cr |-> cr] :
        mk \in LinKinds, dg \in LinGeoms(6), rg \in LinGeoms(4), cd \in UNION {Carriers(g) \cup {g} : g \in LinGeoms(6)},
        cr \in UNION {Carriers(g) \cup {g} : g \in LinGeoms(4)} }
GNo(g) == (CASE g.kind = "imgC" -> 0 [] g.kind = "imgF" -> 1 [] g.kind = "step" -> 2 + g.k [] g.kind = "mapped" -> 3 [] g.kind = "linexp" -> 5
             [] g.kind = "cont1d" -> 1 [] g.kind = "discrete" -> 2 [] OTHER -> 0)
ArrValid(k) == /\ LinValid(k)
               /\ k.cd \in Carriers(k.dg) \cup {k.dg} /\ k.cr \in Carriers(k.rg) \cup {k.rg}
               /\ (k.cd # k.dg \/ k.cr # k.rg)
               /\ k.dg.kind # "visual" /\ k.rg.kind # "visual"
               /\ (VWide \/ /\ (k.mk = "sparse" => (GNo(k.dg) + GNo(k.rg)) % 3 = 0)
                            /\ (k.mk = "dense" => (GNo(k.dg) + GNo(k.rg)) % 2 = 0)
                            \* quick: a carrier on one side at a time, or on both sides for image / image pairs
                            /\ (k.cd # k.dg /\ k.cr # k.rg => (k.dg.kind \in {"imgC", "imgF"} /\ k.rg.kind \in {"imgC", "imgF"}))
                            /\ (k.cd = k.dg => k.dg.kind \in {"default1d", "imgC", "imgF", "step"})
                            /\ (k.cr = k.rg => k.rg.kind \in {"default1d", "imgC", "imgF", "step"}))

ArrEval(k, which) ==
    LET dg == k.dg
        rg == k.rg
        pd == dg.k
        pr == rg.k
        Fm == MR(CoreF(k.fi, rg.n, dg.n))
        Fs == MT(Fm)
        G  == GM(dg)
        Hp == GpM(rg)
        Mat == MM(Hp, MM(Fm, G))
        FwdArr(v) == LET f == TwoFunArr(v, k.cd, dg) IN IF f = IllTyped THEN IllTyped ELSE MV(Hp, MV(Fm, f))
        \* orthogonal maps: G+ = G^T, H = (H+)^T - the coded composition fun2par . F* . par2fun IS the transpose
        AdjArr(w) == LET f == TwoFunArr(w, k.cr, rg) IN IF f = IllTyped THEN IllTyped ELSE MV(MT(G), MV(Fs, f))
        ortho == ArrOrtho(dg) /\ ArrOrtho(rg)
        x == VR(IVecA(pd, 2))
        y == VR(IVecB(pr, 2))
    IN CASE which = "forward" -> /\ \A j \in 1..pd : FwdArr(VUnit(pd, j)) = MCol(Mat, j)
                                 /\ FwdArr(x) = MV(Mat, x)
         [] which = "adjoint" -> ortho => /\ \A i \in 1..pd : \A j \in 1..pr :
                                              /\ FwdArr(VUnit(pd, i)) # IllTyped /\ AdjArr(VUnit(pr, j)) # IllTyped
                                              /\ FwdArr(VUnit(pd, i))[j] = AdjArr(VUnit(pr, j))[i]
                                          /\ Dot(FwdArr(x), y) = Dot(x, AdjArr(y))
         [] which = "container" -> /\ \A j \in 1..pd : TwoFunArr(VUnit(pd, j), k.cd, dg) = MV(G, VUnit(pd, j))
                                   /\ \A i \in 1..pr : TwoFunArr(VUnit(pr, i), k.cr, rg) = MV(GM(rg), VUnit(pr, i))
         [] which = "emit" -> PrintT("@@CASE " \o ToJson(
              [kind |-> "arr", mk |-> k.mk, dg |-> dg, rg |-> rg, cd |-> k.cd, cr |-> k.cr, fi |-> k.fi, F |-> CoreF(k.fi, rg.n, dg.n),
               x |-> IVecA(pd, 2), y |-> IVecB(pr, 2), fwd_x |-> MV(Mat, x), adj_y |-> MV(MT(Mat), y), matrix |-> Mat, ortho |-> ortho,
               Gd |-> G, Gpd |-> (IF F2PLinear(dg) THEN GpM(dg) ELSE <<>>), Hr |-> GM(rg), Hpr |-> Hp,
               CGd |-> CGM(k.cd), CGpd |-> CGpM(k.cd), CHr |-> CGM(k.cr), CHpr |-> CGpM(k.cr)]) \o " @@END")

ArrInit == c \in {k \in ArrConfigs : ArrValid(k)}
ArrNext == UNCHANGED c
ArrForward   == ArrEval(c, "forward")
ArrAdjoint   == ArrEval(c, "adjoint")
ArrContainer == ArrEval(c, "container")
ArrEmit      == Emit => ArrEval(c, "emit")
ArrCovered == \* every class of carrier occurs on the domain side, images on both sides
    /\ \A cl \in {"Image2D", "step", "MappedGeometry", "expansion"} : \E k \in ArrConfigs : ArrValid(k) /\ k.cd # k.dg /\ ClassOf(k.cd) = cl
    /\ \E k \in ArrConfigs : ArrValid(k) /\ k.cr # k.rg /\ ClassOf(k.cr) = "Image2D" /\ k.cd # k.dg
    /\ \E k \in ArrConfigs : ArrValid(k) /\ k.cd # k.dg /\ k.cd.n # k.dg.n

\* =============================================================================================================
\* part VEC
\* =============================================================================================================
VND == 6
VecOps == {"roll", "flipall", "cumsum", "rollcut"}
VOutLen(op, L) == IF op = "rollcut" THEN L - 2 ELSE L
\* the numpy call on an INTEGER sequence of any length L
VApply(op, v) ==
    LET L == Len(v)
    IN CASE op = "roll"    -> F([i \in 1..L |-> IF i = 1 THEN v[L] ELSE v[i - 1]])                     \* np.roll(v, 1)
         [] op = "flipall" -> F([i \in 1..L |-> v[(L + 1) - i]])                                       \* np.flip(v)
         [] op = "cumsum"  -> F([i \in 1..L |-> ISum([t \in 1..i |-> v[t]])])                          \* np.cumsum(v)
         [] op = "rollcut" -> F([i \in 1..(L - 2) |-> v[i + 2]])                                       \* np.roll(v, -2)[:L-2]
\* the adjoint supplied with it (w of length VOutLen)
VAdjApply(op, w) ==
    LET L == Len(w)
    IN CASE op = "roll"    -> F([i \in 1..L |-> IF i = L THEN w[1] ELSE w[i + 1]])                     \* np.roll(w, -1)
         [] op = "flipall" -> F([i \in 1..L |-> w[(L + 1) - i]])
         [] op = "cumsum"  -> F([i \in 1..L |-> ISum([t \in 1..((L + 1) - i) |-> w[(i + t) - 1]])])    \* np.cumsum(w[::-1])[::-1]
         [] op = "rollcut" -> F([i \in 1..(L + 2) |-> IF i >= 3 THEN w[i - 2] ELSE 0])                 \* np.roll(np.append(w, [0, 0]), 2)
VOpM(op, n) == IT(F([j \in 1..n |-> VApply(op, IUnit(n, j))]))                   \* integer matrix with the columns op(e_j)
\* what the call returns for the n x n identity: flatten (C order), one long vector, shape back (roll, flip); np.roll(I, -2)[:n-2] = the
\* first n-2 ROWS of the rolled matrix; cumsum returns the long vector (no matrix: <<>>)
VOnIdentity(op, n) ==
    LET flat == F([q \in 1..(n * n) |-> IF ((q - 1) \div n) = ((q - 1) % n) THEN 1 ELSE 0])
        resh(w, rows) == F([i \in 1..rows |-> [j \in 1..n |-> w[((i - 1) * n) + j]]])
    IN CASE op \in {"roll", "flipall"} -> resh(VApply(op, flat), n)
         [] op = "rollcut" -> resh(F([q \in 1..(n * n) |-> flat[(((q - 1) + 2) % (n * n)) + 1]]), n - 2)
         [] OTHER -> <<>>

VG1(kind, n) == Geo(kind, n, n, 1, n, "", <<>>)
VImg(kind, r, q) == Geo(kind, r * q, r * q, r, q, "", <<>>)
VStep(n) == Geo("step", n, StepK(n, FALSE), 1, n, "mean", StepAsg(n, FALSE))
VecDom == {VG1("default1d", VND), VG1("cont1d", VND), VImg("imgC", 2, 3), VStep(VND)}
          \cup (IF VWide THEN {VG1("discrete", VND), VImg("imgF", 2, 3), VImg("cont2d", 2, 3), Geo("mapped", VND, VND, 1, VND, "", <<>>)} ELSE {})
VecRng(op) == LET nr == VOutLen(op, VND)
              IN {VG1("default1d", nr), VG1("discrete", nr), VImg("imgF", 2, nr \div 2)}
                 \cup (IF VWide THEN {VG1("cont1d", nr), VImg("imgC", 2, nr \div 2), VStep(nr)} ELSE {})
VecConfigs == { [part |-> "VEC", op |-> op, dg |-> dg, rg |-> rg] : op \in VecOps, dg \in VecDom, rg \in UNION {VecRng(o) : o \in VecOps} }
VecValid(k) == k.rg \in VecRng(k.op)

VecEval(k, which) ==
    LET V   == VOpM(k.op, VND)
        Mat == MM(GpM(k.rg), MM(MR(V), GM(k.dg)))
        pd  == k.dg.k
        pr  == k.rg.k
        idl == IdType(k.dg) /\ VecFun(k.dg) /\ IdType(k.rg) /\ VecFun(k.rg)           \* par2fun / fun2par hand a matrix on unchanged
        once == VOnIdentity(k.op, VND)
        asm == IF "MatrixFromForwardOfIdentity" \in Dev /\ idl /\ once # <<>> /\ Len(once) = pr THEN MR(once) ELSE Mat
        ortho == ArrOrtho(k.dg) /\ ArrOrtho(k.rg)
        xa  == VR(IVecA(pd, 1))
        ya  == VR(IVecB(pr, 1))
    IN CASE which = "columns" -> /\ NRows(asm) = pr /\ NCols(asm) = pd
                                 /\ \A j \in 1..pd : MCol(asm, j) = MV(GpM(k.rg), MV(MR(V), MV(GM(k.dg), VUnit(pd, j))))
         [] which = "adjoint" -> \A i \in 1..Len(V) : VAdjApply(k.op, IUnit(Len(V), i)) = V[i]      \* rows of V = supplied adjoint on the basis
         [] which = "emit" -> PrintT("@@CASE " \o ToJson(
              [kind |-> "vec", op |-> k.op, dg |-> k.dg, rg |-> k.rg, V |-> V, matrix |-> Mat, xa |-> IVecA(pd, 1), ya |-> IVecB(pr, 1),
               fwd_a |-> MV(Mat, xa), adj_a |-> MV(MT(Mat), ya), ortho |-> ortho, idlike |-> idl,
               Gd |-> GM(k.dg), Gpd |-> GpM(k.dg), Hr |-> GM(k.rg), Hpr |-> GpM(k.rg)]) \o " @@END")
VecInit == c \in {k \in VecConfigs : VecValid(k)}
VecNext == UNCHANGED c
VecColumns == VecEval(c, "columns")
VecAdjoint == VecEval(c, "adjoint")
VecEmit    == Emit => VecEval(c, "emit")
=============================================================================
