------------------------------- MODULE MatQ -------------------------------
(***************************************************************************)
(* Extension of Rat / Mat used by Solvers.tla (C16) and PDE.tla (C18):     *)
(* the same exact rational linear algebra, but with gcd-aware addition and *)
(* multiplication (cross-cancellation BEFORE multiplying), so that the     *)
(* intermediate 32-bit products stay of the size of the result.  Iterated  *)
(* recurrences (conjugate gradients, Euler steps on non-uniform grids)     *)
(* overflow with the plain RAdd / RMul although every iterate is small.    *)
(* All values are normalised rationals <<n, d>> as in Rat.tla, so the two  *)
(* families of operators can be mixed freely.                              *)
(***************************************************************************)
EXTENDS Mat

QAdd(a, b) ==
    IF a[1] = 0 THEN b ELSE IF b[1] = 0 THEN a
    ELSE LET g == Gcd(a[2], b[2])
         IN Norm(a[1] * (b[2] \div g) + b[1] * (a[2] \div g), (a[2] \div g) * b[2])
QNeg(a)    == <<-a[1], a[2]>>
QSub(a, b) == QAdd(a, QNeg(b))
QMul(a, b) ==
    IF a[1] = 0 \/ b[1] = 0 THEN Zero
    ELSE LET g1 == Gcd(Abs(a[1]), b[2])
             g2 == Gcd(Abs(b[1]), a[2])
         IN << (a[1] \div g1) * (b[1] \div g2), (a[2] \div g2) * (b[2] \div g1) >>
QInv(a)    == IF a[1] < 0 THEN <<-a[2], -a[1]>> ELSE <<a[2], a[1]>>          \* a # 0
QDiv(a, b) == QMul(a, QInv(b))
QSq(a)     == << a[1] * a[1], a[2] * a[2] >>

RECURSIVE QSumSeq(_)
QSumSeq(s) == IF s = <<>> THEN Zero ELSE QAdd(Head(s), QSumSeq(Tail(s)))

QVAdd(u, v)   == F([i \in 1..Len(u) |-> QAdd(u[i], v[i])])
QVSub(u, v)   == F([i \in 1..Len(u) |-> QSub(u[i], v[i])])
QVScale(c, v) == F([i \in 1..Len(v) |-> QMul(c, v[i])])
QVNeg(v)      == F([i \in 1..Len(v) |-> QNeg(v[i])])
QDot(u, v)    == QSumSeq([i \in 1..Len(u) |-> QMul(u[i], v[i])])
QNorm2(v)     == QSumSeq([i \in 1..Len(v) |-> QSq(v[i])])
\* a + c * b  (vectors)
QAxpy(a, c, b) == F([i \in 1..Len(a) |-> QAdd(a[i], QMul(c, b[i]))])

QMV(M, v)     == F([i \in 1..NRows(M) |-> QDot(M[i], v)])
QMM(A, B)     == LET BT == MT(B) IN F([i \in 1..NRows(A) |-> [j \in 1..NCols(B) |-> QDot(A[i], BT[j])]])
QMAdd(A, B)   == F([i \in 1..NRows(A) |-> QVAdd(A[i], B[i])])
QMSub(A, B)   == F([i \in 1..NRows(A) |-> QVSub(A[i], B[i])])
QMScale(c, A) == F([i \in 1..NRows(A) |-> QVScale(c, A[i])])

\* --- Gauss-Jordan with the gcd-aware operations -----------------------------
QEliminate(M, r, c) ==
    LET prow == QVScale(QInv(M[r][c]), M[r])
    IN F([i \in 1..Len(M) |-> IF i = r THEN prow
                              ELSE IF M[i][c] = Zero THEN M[i] ELSE QVSub(M[i], QVScale(M[i][c], prow))])

RECURSIVE QRrefFrom(_, _, _, _)
QRrefFrom(M, r, c, ncols) ==
    IF r > Len(M) \/ c > ncols THEN <<M, r - 1>>
    ELSE LET P == PivotRows(M, r, c)
         IN IF P = {} THEN QRrefFrom(M, r, c + 1, ncols)
            ELSE LET p  == CHOOSE i \in P : \A k \in P : i <= k
                     M1 == QEliminate(SwapRows(M, r, p), r, c)
                 IN QRrefFrom(M1, r + 1, c + 1, ncols)

QRank(M) == IF Len(M) = 0 THEN 0 ELSE QRrefFrom(M, 1, 1, NCols(M))[2]

QMInv(A) ==
    LET n   == Len(A)
        Aug == F([i \in 1..n |-> A[i] \o MId(n)[i]])
        Red == QRrefFrom(Aug, 1, 1, n)[1]
    IN F([i \in 1..n |-> SubSeq(Red[i], n + 1, 2 * n)])

\* solution of the non-singular system A x = b (elimination on the augmented matrix)
QSolve(A, b) ==
    LET n   == Len(A)
        Aug == F([i \in 1..n |-> A[i] \o <<b[i]>>])
        Red == QRrefFrom(Aug, 1, 1, n)[1]
    IN F([i \in 1..n |-> Red[i][n + 1]])
=============================================================================
