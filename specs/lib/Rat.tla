------------------------------- MODULE Rat -------------------------------
(***************************************************************************)
(* Exact rational arithmetic for TLC.  A rational is a normalised pair     *)
(* <<n, d>> with d > 0 and gcd(|n|, d) = 1.  TLC integers are 32 bit; the  *)
(* bounded instances are designed so that nothing overflows (TLC raises an *)
(* error on overflow, which the driver reports as a machinery failure).    *)
(***************************************************************************)
EXTENDS Integers, Sequences

Abs(x) == IF x < 0 THEN -x ELSE x

RECURSIVE Gcd(_, _)
Gcd(a, b) == IF b = 0 THEN a ELSE Gcd(b, a % b)

Norm(n, d) ==
    LET s == IF d < 0 THEN -1 ELSE 1
        g == Gcd(Abs(n), Abs(d))
    IN  IF n = 0 THEN <<0, 1>> ELSE <<(s * n) \div g, (s * d) \div g>>

R(n)        == <<n, 1>>                      \* integer -> rational
Q(n, d)     == Norm(n, d)                    \* n/d
Zero        == <<0, 1>>
One         == <<1, 1>>
Half        == <<1, 2>>

RAdd(a, b)  == Norm(a[1] * b[2] + b[1] * a[2], a[2] * b[2])
RNeg(a)     == <<-a[1], a[2]>>
RSub(a, b)  == RAdd(a, RNeg(b))
RMul(a, b)  == Norm(a[1] * b[1], a[2] * b[2])
RInv(a)     == Norm(a[2], a[1])              \* a # 0
RDiv(a, b)  == RMul(a, RInv(b))
RLt(a, b)   == a[1] * b[2] < b[1] * a[2]
RLe(a, b)   == a[1] * b[2] <= b[1] * a[2]
RMin(a, b)  == IF RLe(a, b) THEN a ELSE b
RMax(a, b)  == IF RLe(a, b) THEN b ELSE a
RAbs(a)     == <<Abs(a[1]), a[2]>>
RIsInt(a)   == a[2] = 1
RSq(a)      == RMul(a, a)

RECURSIVE RSumSeq(_)
RSumSeq(s) == IF s = <<>> THEN Zero ELSE RAdd(Head(s), RSumSeq(Tail(s)))

RECURSIVE RProdSeq(_)
RProdSeq(s) == IF s = <<>> THEN One ELSE RMul(Head(s), RProdSeq(Tail(s)))

\* integer power of a rational, k >= 0
RECURSIVE RPow(_, _)
RPow(a, k) == IF k = 0 THEN One ELSE RMul(a, RPow(a, k - 1))
=============================================================================
