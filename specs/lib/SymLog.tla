------------------------------- MODULE SymLog -------------------------------
(***************************************************************************)
(* Symbolic logarithms for TLC.  A value is                                *)
(*     q_one + q_log2*log 2 + q_log3*log 3 + ... + q_logpi*log pi          *)
(*           + q_loglog2*log(log 2)                                        *)
(* with rational coefficients (module Rat), stored as a record whose field *)
(* names are the atoms.  TLC only manipulates the coefficient records      *)
(* (add, subtract, scale, compare); the atoms are turned into floats by    *)
(* the harness alone.  log n is available for integers n whose prime       *)
(* factors are <= 13 ("smooth"); the bounded instances are designed so     *)
(* that only such numbers occur (SLHasLog is the guard).                   *)
(* Because log 2, log 3, ..., log pi, log log 2 and 1 are linearly         *)
(* independent over the rationals (Baker / Lindemann for the pairs used;   *)
(* taken as trusted mathematics), two values are equal iff their           *)
(* coefficient records are equal.                                          *)
(***************************************************************************)
EXTENDS Rat, TLC

SLAtoms == {"one", "log2", "log3", "log5", "log7", "log11", "log13", "logpi", "loglog2"}

SLZero        == [k \in SLAtoms |-> Zero]
SLConst(q)    == [k \in SLAtoms |-> IF k = "one" THEN q ELSE Zero]
SLAtom(a, q)  == [k \in SLAtoms |-> IF k = a THEN q ELSE Zero]          \* q * atom a
SLAdd(s, t)   == TLCEval([k \in SLAtoms |-> RAdd(s[k], t[k])])
SLNeg(s)      == TLCEval([k \in SLAtoms |-> RNeg(s[k])])
SLSub(s, t)   == TLCEval([k \in SLAtoms |-> RSub(s[k], t[k])])
SLScale(q, s) == TLCEval([k \in SLAtoms |-> RMul(q, s[k])])
SLEq(s, t)    == s = t                                                 \* coefficients are normalised rationals
SLIsConst(s)  == \A k \in SLAtoms : k # "one" => s[k] = Zero           \* no transcendental part
SLRatPart(s)  == s["one"]

\* sum of a sequence of values; balanced recursion (depth log n: long sums must not exhaust the Java stack)
RECURSIVE SLSumR(_, _, _)
SLSumR(s, lo, hi) == IF lo > hi THEN SLZero ELSE IF lo = hi THEN s[lo]
                     ELSE LET mid == (lo + hi) \div 2 IN SLAdd(SLSumR(s, lo, mid), SLSumR(s, mid + 1, hi))
SLSum(seq) == LET s == TLCEval(seq) IN SLSumR(s, 1, Len(s))

\* ---- logarithms of smooth integers / rationals -------------------------------
RECURSIVE Mult(_, _)
Mult(n, p)  == IF n % p = 0 THEN 1 + Mult(n \div p, p) ELSE 0           \* multiplicity of the prime p in n >= 1
RECURSIVE Strip(_, _)
Strip(n, p) == IF n % p = 0 THEN Strip(n \div p, p) ELSE n
Smooth(n)   == n >= 1 /\ Strip(Strip(Strip(Strip(Strip(Strip(n, 2), 3), 5), 7), 11), 13) = 1

SLLogInt(n) ==                                                          \* log n, n smooth
    TLCEval([k \in SLAtoms |->
        CASE k = "log2"  -> R(Mult(n, 2))  [] k = "log3"  -> R(Mult(n, 3))
          [] k = "log5"  -> R(Mult(n, 5))  [] k = "log7"  -> R(Mult(n, 7))
          [] k = "log11" -> R(Mult(n, 11)) [] k = "log13" -> R(Mult(n, 13))
          [] OTHER -> Zero])

SLHasLog(q) == q[1] >= 1 /\ Smooth(q[1]) /\ Smooth(q[2])                \* q > 0 and log q representable
\* log of a positive smooth rational; anything else is an error of the bounded instance (TLC stops: machinery failure),
\* never a silently wrong expected value
SLLog(q)    == IF SLHasLog(q) THEN SLSub(SLLogInt(q[1]), SLLogInt(q[2]))
               ELSE Assert(FALSE, <<"SymLog: log of a non-positive or non-smooth rational requested", q>>)

RECURSIVE SLLogFact(_)
SLLogFact(n) == IF n <= 1 THEN SLZero ELSE SLAdd(SLLogInt(n), SLLogFact(n - 1))   \* log n!  (log Gamma(n+1))
SLLogGamma(n) == SLLogFact(n - 1)                                       \* log Gamma(n), integer n >= 1

SLLog2Pi == SLAdd(SLAtom("log2", One), SLAtom("logpi", One))            \* log(2 pi)
SLLogPi  == SLAtom("logpi", One)
=============================================================================
