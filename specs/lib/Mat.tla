------------------------------- MODULE Mat -------------------------------
(***************************************************************************)
(* Small dense linear algebra over the rationals of module Rat.            *)
(* A vector is a sequence of rationals; a matrix is a sequence of rows.    *)
(* Integer matrices/vectors (sequences of Int) are lifted with MR / VR.    *)
(***************************************************************************)
EXTENDS Rat, TLC

\* TLC builds [i \in S |-> e] lazily and re-evaluates e on every application; F(...) forces the value once.
F(v) == TLCEval(v)

VR(v) == F([i \in 1..Len(v) |-> R(v[i])])
MR(M) == F([i \in 1..Len(M) |-> VR(M[i])])

NRows(M) == Len(M)
NCols(M) == IF Len(M) = 0 THEN 0 ELSE Len(M[1])

VZero(n)   == [i \in 1..n |-> Zero]
VUnit(n,k) == [i \in 1..n |-> IF i = k THEN One ELSE Zero]
MZero(m,n) == [i \in 1..m |-> VZero(n)]
MId(n)     == [i \in 1..n |-> VUnit(n, i)]
MDiag(v)   == [i \in 1..Len(v) |-> [j \in 1..Len(v) |-> IF i = j THEN v[i] ELSE Zero]]

VAdd(u, v)   == F([i \in 1..Len(u) |-> RAdd(u[i], v[i])])
VSub(u, v)   == F([i \in 1..Len(u) |-> RSub(u[i], v[i])])
VScale(c, v) == F([i \in 1..Len(v) |-> RMul(c, v[i])])
Dot(u, v)    == RSumSeq([i \in 1..Len(u) |-> RMul(u[i], v[i])])
Norm2(v)     == Dot(v, v)

MT(M)        == F([j \in 1..NCols(M) |-> [i \in 1..NRows(M) |-> M[i][j]]])
MCol(M, j)   == F([i \in 1..NRows(M) |-> M[i][j]])
MV(M, v)     == F([i \in 1..NRows(M) |-> Dot(M[i], v)])
MM(A, B)     == LET BT == MT(B) IN F([i \in 1..NRows(A) |-> [j \in 1..NCols(B) |-> Dot(A[i], BT[j])]])
MAdd(A, B)   == F([i \in 1..NRows(A) |-> VAdd(A[i], B[i])])
MSub(A, B)   == F([i \in 1..NRows(A) |-> VSub(A[i], B[i])])
MScale(c, A) == F([i \in 1..NRows(A) |-> VScale(c, A[i])])
VStack(A, B) == A \o B
MSym(A)      == A = MT(A)

\* Kronecker product A (x) B
Kron(A, B) ==
    LET ra == NRows(A) ca == NCols(A) rb == NRows(B) cb == NCols(B)
    IN F([i \in 1..(ra * rb) |-> [j \in 1..(ca * cb) |->
          RMul(A[((i - 1) \div rb) + 1][((j - 1) \div cb) + 1],
               B[((i - 1) % rb) + 1][((j - 1) % cb) + 1])]])

\* --- Gauss-Jordan over the rationals (exact): rank, inverse, solve ----------
SwapRows(M, a, b) == F([i \in 1..Len(M) |-> IF i = a THEN M[b] ELSE IF i = b THEN M[a] ELSE M[i]])

\* reduce column c using pivot row r (M[r][c] # 0): normalise row r, eliminate c elsewhere
Eliminate(M, r, c) ==
    LET p    == M[r][c]
        prow == VScale(RInv(p), M[r])
    IN F([i \in 1..Len(M) |-> IF i = r THEN prow ELSE VSub(M[i], VScale(M[i][c], prow))])

PivotRows(M, r, c) == {i \in r..Len(M) : M[i][c] # Zero}

RECURSIVE RrefFrom(_, _, _, _)
\* returns <<reduced matrix, rank>>; only the first `ncols` columns are pivot candidates
RrefFrom(M, r, c, ncols) ==
    IF r > Len(M) \/ c > ncols THEN <<M, r - 1>>
    ELSE LET P == PivotRows(M, r, c)
         IN IF P = {} THEN RrefFrom(M, r, c + 1, ncols)
            ELSE LET p  == CHOOSE i \in P : \A k \in P : i <= k
                     M1 == Eliminate(SwapRows(M, r, p), r, c)
                 IN RrefFrom(M1, r + 1, c + 1, ncols)

Rref(M) == RrefFrom(M, 1, 1, NCols(M))[1]
Rank(M) == IF Len(M) = 0 THEN 0 ELSE RrefFrom(M, 1, 1, NCols(M))[2]

\* inverse of a non-singular square matrix
MInv(A) ==
    LET n   == Len(A)
        Aug == F([i \in 1..n |-> A[i] \o MId(n)[i]])
        Red == RrefFrom(Aug, 1, 1, n)[1]
    IN F([i \in 1..n |-> SubSeq(Red[i], n + 1, 2 * n)])

\* solution of the non-singular system A x = b
MSolve(A, b) == MV(MInv(A), b)

\* determinant by cofactor expansion along the first row (n <= 4 in practice)
Minor(A, i, j) == LET n == Len(A)
                      rows == [a \in 1..(n - 1) |-> IF a < i THEN a ELSE a + 1]
                      cols == [b \in 1..(n - 1) |-> IF b < j THEN b ELSE b + 1]
                  IN F([a \in 1..(n - 1) |-> [b \in 1..(n - 1) |-> A[rows[a]][cols[b]]]])
RECURSIVE Det(_)
Det(A) == IF Len(A) = 0 THEN One
          ELSE IF Len(A) = 1 THEN A[1][1]
          ELSE RSumSeq([j \in 1..Len(A) |->
                 RMul(IF j % 2 = 1 THEN A[1][j] ELSE RNeg(A[1][j]), Det(Minor(A, 1, j)))])

\* x is in the null space of M
InNull(M, x) == MV(M, x) = VZero(NRows(M))
=============================================================================
