------------------------------- MODULE MHTypes -------------------------------
(***************************************************************************)
(* C02, round 11: the DATA TYPE of the numbers a Metropolis-type kernel is *)
(* configured with.                                                        *)
(*                                                                         *)
(* One transition x -> y (lattice {-1,0,1}^2) of RW, CW, PCN, MALA x both  *)
(* interfaces.  Two dimensions of the configuration that no earlier module *)
(* of C02 enumerates:                                                      *)
(*   st   how the STEP SIZE is handed over: python float | python int |    *)
(*        numpy int64 | numpy int32 | integer array (CW) - with the        *)
(*        integer VALUES 2, 3, 4 (docstrings: "scale : float", "scale :    *)
(*        int", "float or ndarray"); for an integer step size >= 2 the     *)
(*        integer reciprocal is 0;                                         *)
(*   pc, mt  the CLASS of the prior of the pCN kernel (Gaussian | Normal)  *)
(*        and how its MEAN m is handed over: float array | python float |  *)
(*        python int | numpy float64 | integer array | list (scalars are   *)
(*        broadcast by the distribution, geometry = dimension).            *)
(* No action reads st / pc / mt: the Metropolis-Hastings rule does not     *)
(* depend on the type of a number - they are dimensions the realisation    *)
(* must cover.  The named deviations model two ways of reading them:       *)
(*   IntegerReciprocal   1/eps of the Langevin log-proposal computed in    *)
(*                       the type of eps (0 for an integer eps >= 2)       *)
(*   ScalarMeanIgnored   the pCN proposal takes the prior mean only when   *)
(*                       it is an array (0 otherwise)                      *)
(* both refuted on RatioIsMH.                                              *)
(*                                                                         *)
(* Proposal mechanisms (documented):                                       *)
(*   RW / CW  y = x + s .* xi,              xi ~ N(0, I)                   *)
(*   PCN      y = m + a (x - m) + s (xi - m), xi ~ N(m, I), a^2 + s^2 = 1  *)
(*   MALA     y = x + (eps/2) g(x) + w,     w ~ N(0, eps I)                *)
(*            (w = sqrt(eps) xi: the spec emits w, rational for every      *)
(*            lattice pair; only the harness divides by sqrt(eps))         *)
(* RTrue = lp(y) - lp(x) + log q(x|y) - log q(y|x) from the mechanism;      *)
(* RCode = what the implementation computes operator by operator.          *)
(* CW: the sweep proposes a move of component 1 only (component 2: no      *)
(* move, decided with the uniform 1/2).                                    *)
(***************************************************************************)
EXTENDS Mat, FiniteSets, TLC, Json

CONSTANTS Kernels,       \* subset of {"RW", "CW", "PCN", "MALA"}
          Ifaces,        \* subset of {"exp", "leg"}
          IntScales,     \* integer step sizes of RW / CW / MALA, subset of {1, 2, 3, 4}
          ScaleTypes,    \* subset of {"pyfloat", "pyint", "npint64", "npint32", "intarr"}
          PriorMeans,    \* integer prior means of PCN
          PriorClasses,  \* subset of {"Gaussian", "Normal"}
          MeanTypes,     \* subset of {"arr", "pyfloat", "pyint", "npfloat64", "intarr", "list"}
          AllStarts,     \* every lattice point is an initial point (FALSE: two)
          Emit,
          Dev            \* "none" | "IntegerReciprocal" | "ScalarMeanIgnored"

VARIABLES cfg, phase, r, cls, acc, x, c_lp, c_grad
vars == <<cfg, phase, r, cls, acc, x, c_lp, c_grad>>

D == 2
X == {<<i, j>> : i \in -1..1, j \in -1..1}
Min0(v) == IF RLt(v, Zero) THEN v ELSE Zero
RSum2(f) == RAdd(f[1], f[2])

\* target table (likelihood table for PCN) and drift table (NOT the gradient of the table: the identities hold for every drift)
LPT(p) == RMul(Q(-1, 4), R((p[1] - 1) * (p[1] - 1) + 2 * p[2] * p[2] + p[1] * p[2]))
G(p)   == F(<<R(1 - p[1]), Q(p[1] - 2 * p[2], 2)>>)

IntTypes == {"pyint", "npint64", "npint32", "intarr"}
ArrTypes == {"arr", "intarr"}
\* PCN scales: the floats 3/5, 4/5 and the INTEGER 1 (a = 0: the proposal is the prior draw)
PcnScales == {<<Q(3, 5), "pyfloat">>, <<Q(4, 5), "pyfloat">>, <<One, "pyint">>, <<One, "npint64">>}
PcnA(s) == CASE s = Q(3, 5) -> Q(4, 5) [] s = Q(4, 5) -> Q(3, 5) [] s = One -> Zero
ASSUME \A p \in PcnScales : RAdd(RSq(PcnA(p[1])), RSq(p[1])) = One

\* per-component scale vector
SV(c) == IF c.st = "intarr" THEN F(<<c.sc, RAdd(c.sc, One)>>) ELSE F(<<c.sc, c.sc>>)

StartSet == IF AllStarts THEN X ELSE {<<0, 0>>, <<1, -1>>}
Other == {c \in [k : Kernels \ {"PCN"}, iface : Ifaces, sc : {R(n) : n \in IntScales}, st : ScaleTypes, m : {0}, pc : {"none"},
                  mt : {"none"}, x0 : StartSet, y : X] :
              /\ (c.st = "intarr" => c.k = "CW")
              /\ (c.k = "CW" => c.y[2] = c.x0[2])}
Pcn == {c \in [k : Kernels \cap {"PCN"}, iface : Ifaces, sc : {p[1] : p \in PcnScales}, st : {p[2] : p \in PcnScales},
                m : PriorMeans, pc : PriorClasses, mt : MeanTypes, x0 : StartSet, y : X] : <<c.sc, c.st>> \in PcnScales}
Configs == Other \cup Pcn

\* ------------------------------ mechanism ------------------------------
\* the prior mean the proposal map of the implementation uses
PropMean(c) == IF Dev = "ScalarMeanIgnored" /\ c.mt \notin ArrTypes THEN Zero ELSE R(c.m)
\* noise that carries `from` to `to`: xi (RW, CW, PCN) / scaled increment w (MALA)
Noise(c, from, to) ==
    LET s == SV(c) IN
    CASE c.k \in {"RW", "CW"} -> F([i \in 1..D |-> RDiv(R(to[i] - from[i]), s[i])])
      [] c.k = "PCN"  -> LET a == PcnA(c.sc)  pm == PropMean(c)
                         IN F([i \in 1..D |-> RAdd(pm, RDiv(RSub(RSub(R(to[i]), pm), RMul(a, RSub(R(from[i]), pm))), c.sc))])
      [] c.k = "MALA" -> LET g == G(from)
                         IN F([i \in 1..D |-> RSub(R(to[i] - from[i]), RMul(RMul(Half, c.sc), g[i]))])
\* log q(to | from) up to a constant
LogQ(c, from, to) ==
    LET n == Noise(c, from, to) IN
    CASE c.k \in {"RW", "CW"} -> RMul(Q(-1, 2), RSum2([i \in 1..D |-> RSq(n[i])]))
      [] c.k = "PCN"  -> RMul(Q(-1, 2), RSum2([i \in 1..D |-> RSq(RSub(n[i], R(c.m)))]))
      [] c.k = "MALA" -> RMul(RDiv(Q(-1, 2), c.sc), RSum2([i \in 1..D |-> RSq(n[i])]))
PriorLog(c, p) == RMul(Q(-1, 2), RSum2([i \in 1..D |-> R((p[i] - c.m) * (p[i] - c.m))]))
LP(c, p) == IF c.k = "PCN" THEN RAdd(LPT(p), PriorLog(c, p)) ELSE LPT(p)
RTrue(c, from, to) == RAdd(RSub(LP(c, to), LP(c, from)), RSub(LogQ(c, to, from), LogQ(c, from, to)))

\* ------------------------------ implementation ------------------------------
\* 1/eps as the implementation obtains it
InvScale(c) == IF Dev = "IntegerReciprocal" /\ c.st \in IntTypes
               THEN (IF c.sc = One THEN One ELSE Zero)         \* integer reciprocal
               ELSE RInv(c.sc)
\* _log_proposal(theta_star, theta_k, g_k) = -0.5 * (1/eps) * |theta_star - (theta_k + (eps/2) g_k)|^2
LogProp(c, thetaStar, thetaK, gK) ==
    LET mis == F([i \in 1..D |-> RSub(R(thetaStar[i]), RAdd(R(thetaK[i]), RMul(RMul(c.sc, Half), gK[i])))])
    IN RMul(Q(-1, 2), RMul(InvScale(c), RSum2([i \in 1..D |-> RSq(mis[i])])))
RCode(c, from, to) ==
    CASE c.k \in {"RW", "CW", "PCN"} -> RSub(LPT(to), LPT(from))
      [] c.k = "MALA" -> RAdd(RSub(LPT(to), LPT(from)), RSub(LogProp(c, from, to, G(to)), LogProp(c, to, from, G(from))))

\* ------------------------------ behaviour ------------------------------
CGrad(c, p) == IF c.k = "MALA" THEN G(p) ELSE <<>>
Init == /\ cfg \in Configs
        /\ phase = "idle" /\ r = Zero /\ cls = "none" /\ acc = -1
        /\ x = cfg.x0 /\ c_lp = LPT(cfg.x0) /\ c_grad = CGrad(cfg, cfg.x0)
Propose == /\ phase = "idle"
           /\ r' = RCode(cfg, x, cfg.y)
           /\ phase' = "proposed"
           /\ UNCHANGED <<cfg, cls, acc, x, c_lp, c_grad>>
Decide(k) == /\ phase = "proposed"
             /\ k \in (IF RLt(r, Zero) THEN {"Below", "Above"} ELSE {"Below"})
             /\ LET ok == k = "Below"
                IN /\ acc' = IF ok THEN 1 ELSE 0
                   /\ x' = IF ok THEN cfg.y ELSE x
                   /\ c_lp' = IF ok THEN LPT(cfg.y) ELSE c_lp
                   /\ c_grad' = IF ok THEN CGrad(cfg, cfg.y) ELSE c_grad
             /\ cls' = k /\ phase' = "done"
             /\ UNCHANGED <<cfg, r>>
Next == Propose \/ \E k \in {"Below", "Above"} : Decide(k)
Spec == Init /\ [][Next]_vars

\* ------------------------------ properties ------------------------------
\* the log-ratio the kernel decides with is the Metropolis-Hastings log-ratio of its documented proposal mechanism,
\* whatever the type of the step size / of the prior mean
RatioIsMH == phase # "idle" => r = RTrue(cfg, cfg.x0, cfg.y)
\* detailed balance of the pair (x, y) under the rule accept iff log u <= min(0, r)
DetailedBalance == phase # "idle" =>
    RSub(Min0(RCode(cfg, cfg.x0, cfg.y)), Min0(RCode(cfg, cfg.y, cfg.x0))) = RTrue(cfg, cfg.x0, cfg.y)
CacheCoherent == c_lp = LPT(x) /\ c_grad = CGrad(cfg, x)
RejectKeepsState == [][(phase = "proposed" /\ acc' = 0) => UNCHANGED <<x, c_lp, c_grad>>]_vars

\* non-vacuity over the constants: an integer step size >= 2 with a non-zero Hastings term; a scalar non-zero prior mean
ASSUME (Dev = "none" /\ "MALA" \in Kernels) =>
          \E c \in Configs : c.k = "MALA" /\ c.st \in IntTypes /\ RLt(One, c.sc) /\ RCode(c, c.x0, c.y) # RSub(LPT(c.y), LPT(c.x0))
ASSUME (Dev = "none" /\ "PCN" \in Kernels) =>
          \E c \in Configs : c.k = "PCN" /\ c.m # 0 /\ c.mt \notin ArrTypes /\ c.y # c.x0

\* ------------------------------ emission ------------------------------
Emitted ==
    (Emit /\ phase = "done") =>
        PrintT("@@CASE " \o ToJson([kind |-> "typ", cfg |-> cfg, noise |-> Noise(cfg, cfg.x0, cfg.y), sv |-> SV(cfg),
                                    a |-> IF cfg.k = "PCN" THEN PcnA(cfg.sc) ELSE Zero,
                                    lx |-> LPT(cfg.x0), ly |-> LPT(cfg.y), gx |-> G(cfg.x0), gy |-> G(cfg.y),
                                    r |-> r, cls |-> cls, acc |-> acc, nx |-> x, nlp |-> c_lp, ngrad |-> c_grad]) \o " @@END")
=============================================================================
