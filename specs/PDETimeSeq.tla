---------------------------- MODULE PDETimeSeq ----------------------------
(***************************************************************************)
(* C18, round 11: ONE TimeDependentLinearPDE object whose TIME GRID and    *)
(* time-stepping METHOD are re-assigned between solves.                    *)
(*                                                                         *)
(* `time_steps` is a plain public attribute and `method` a public setter   *)
(* of cuqi.pde.TimeDependentLinearPDE.  The property says that each stored *)
(* time level satisfies the documented forward- / backward-Euler           *)
(* recurrence "for non-uniform time steps too": after                      *)
(*      Construct(T1, m1) . Solve . SetTimeSteps(T2) . SetMethod(m2) . Solve*)
(* the levels returned are those of the recurrence on the grid and with    *)
(* the method the object REPORTS at the time of the solve - step sizes,    *)
(* assembly times and number of levels all taken from that one grid.       *)
(*                                                                         *)
(* The problem is scalar (one node): u' = a(t) u + f(t), a(t) = A0 + A1 t, *)
(* f(t) = F0 + F1 t, u(t_1) = theta; everything is an exact rational.      *)
(*   forward : u_{i+1} = (1 + dt_i a(t_i)) u_i + dt_i f(t_i)               *)
(*   backward: u_{i+1} = (u_i + dt_i f(t_{i+1})) / (1 - dt_i a(t_{i+1}))   *)
(* with dt_i = t_{i+1} - t_i.                                              *)
(*                                                                         *)
(* Named deviation (FALSE in the deciding configuration):                  *)
(*   DevStaleDt - the step sizes are computed once, at construction        *)
(*                (operators assembled at the new times, old dt)           *)
(***************************************************************************)
EXTENDS Rat, TLC, Json

CONSTANTS Depth,        \* number of operations after the construction
          Emit,
          DevStaleDt

\* time grids (quarters): uniform, non-uniform, shifted, one of another length
Grids == [ u3  |-> <<0, 2, 4>>,
           n3  |-> <<0, 1, 4>>,
           m3  |-> <<1, 2, 6>>,
           n4  |-> <<0, 1, 3, 4>>,
           u2  |-> <<0, 4>> ]
GridNames == DOMAIN Grids
Methods == {"forward_euler", "backward_euler"}
TimeOf(g) == [i \in 1..Len(Grids[g]) |-> Q(Grids[g][i], 4)]

\* coefficient sets <<A0, A1, F0, F1, theta>>
Coefs == { <<Q(-1, 2), Q(1, 4), R(1), R(2), R(3)>>,
           <<R(0),     Q(-1, 2), R(-1), Q(1, 2), Q(-3, 2)>> }

VARIABLES coef, grid, grid0, method, method0, sol, hist
vars == <<coef, grid, grid0, method, method0, sol, hist>>

a(c, t) == RAdd(c[1], RMul(c[2], t))
f(c, t) == RAdd(c[3], RMul(c[4], t))

\* step sizes: of the current grid - or (deviation) of the grid of the construction, as far as it reaches
Dt(g, g0, i) ==
    LET T == TimeOf(g) T0 == TimeOf(g0)
    IN IF DevStaleDt /\ i + 1 <= Len(T0) THEN RSub(T0[i + 1], T0[i]) ELSE RSub(T[i + 1], T[i])

RECURSIVE Levels(_, _, _, _, _, _)
Levels(c, g, g0, m, i, acc) ==          \* acc = <<u_1, .., u_i>>
    LET T == TimeOf(g) IN
    IF i = Len(T) THEN acc
    ELSE LET dt == Dt(g, g0, i)
             u  == acc[i]
             nu == IF m = "forward_euler"
                   THEN RAdd(RMul(RAdd(One, RMul(dt, a(c, T[i]))), u), RMul(dt, f(c, T[i])))
                   ELSE RDiv(RAdd(u, RMul(dt, f(c, T[i + 1]))), RSub(One, RMul(dt, a(c, T[i + 1]))))
         IN Levels(c, g, g0, m, i + 1, Append(acc, nu))

Init == /\ coef \in Coefs /\ grid \in GridNames /\ grid0 = grid /\ method \in Methods /\ method0 = method
        /\ sol = <<>> /\ hist = <<>>

SetTimeSteps(g) ==
    /\ Len(hist) < Depth /\ g # grid
    /\ grid' = g
    /\ hist' = Append(hist, [a |-> "set_time_steps", arg |-> g, sol |-> <<>>])
    /\ UNCHANGED <<coef, grid0, method, method0, sol>>

SetMethod(m) ==
    /\ Len(hist) < Depth /\ m # method
    /\ method' = m
    /\ hist' = Append(hist, [a |-> "set_method", arg |-> m, sol |-> <<>>])
    /\ UNCHANGED <<coef, grid, grid0, method0, sol>>

Solve ==
    /\ Len(hist) < Depth
    /\ (hist # <<>> => hist[Len(hist)].a # "solve")
    /\ sol' = Levels(coef, grid, grid0, method, 1, <<coef[5]>>)
    /\ hist' = Append(hist, [a |-> "solve", arg |-> "", sol |-> sol'])
    /\ UNCHANGED <<coef, grid, grid0, method, method0>>

Next == \/ \E g \in GridNames : SetTimeSteps(g)
        \/ \E m \in Methods : SetMethod(m)
        \/ Solve

\* ------------------------------ properties ------------------------------
\* every level of the solution returned LAST satisfies the documented recurrence on the grid / with the method of that solve
Residual(c, g, m, s, i) ==
    LET T == TimeOf(g) dt == RSub(T[i + 1], T[i]) IN
    IF m = "forward_euler"
    THEN RSub(s[i + 1], RAdd(RMul(RAdd(One, RMul(dt, a(c, T[i]))), s[i]), RMul(dt, f(c, T[i]))))
    ELSE RSub(RMul(RSub(One, RMul(dt, a(c, T[i + 1]))), s[i + 1]), RAdd(s[i], RMul(dt, f(c, T[i + 1]))))

SolveCurrent ==
    (hist # <<>> /\ hist[Len(hist)].a = "solve") =>
        /\ Len(sol) = Len(Grids[grid])
        /\ sol[1] = coef[5]
        /\ \A i \in 1..(Len(sol) - 1) : Residual(coef, grid, method, sol, i) = Zero

Terminal == Len(hist) = Depth /\ hist[Len(hist)].a = "solve"
         /\ \E i \in 1..Len(hist) : hist[i].a # "solve"
EmitInv == (Emit /\ Terminal) =>
             PrintT("@@CASE " \o ToJson([kind |-> "timeseq", coef |-> coef, grid0 |-> grid0,
                                         times |-> [g \in GridNames |-> TimeOf(g)],
                                         method0 |-> method0,
                                         hist |-> hist]) \o " @@END")
=============================================================================
