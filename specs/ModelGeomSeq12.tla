--------------------------- MODULE ModelGeomSeq12 ---------------------------
(***************************************************************************)
(* Property C12, sequences of public operations on ONE model object.       *)
(*                                                                         *)
(* ModelGeom (part C12) describes a FRESHLY constructed model: for every   *)
(* configuration (model kind, domain geometry, range geometry) the output  *)
(* H+(F(G v)) on every representation of the input, the gradient / its     *)
(* refusal, and renaming.  This module is a small state machine over one   *)
(* model object that a user keeps and uses repeatedly:                     *)
(*     F(rep)      m.forward(<input vi in representation rep>)             *)
(*     G           m.gradient(direction, wrt)                              *)
(*     SD(g')      m.domain_geometry = g'   (public attribute, `:ivar`)    *)
(*     SR(g')      m.range_geometry  = g'                                  *)
(*     RN          n_i = m(dist_i)          (renaming: a new model the     *)
(*                                           user now holds as well)       *)
(*     UR(i)/URG(i)  n_i.forward(<name_i> = v) / n_i.gradient(...)         *)
(* The abstract state of the object:                                       *)
(*     d, r     the geometries it has NOW (indices into S12D / S12R)       *)
(*     ev       what an implementation that converts / classifies its      *)
(*              geometries once would keep: the pair in use at the first   *)
(*              evaluation (<<>> = nothing kept)                           *)
(*     last     the representation evaluated last                          *)
(*     arg      its argument name                                          *)
(*     pool     the renamed copies held by the user: <<[arg, d, r]>>       *)
(*     made     the same records as they were when the copy was made       *)
(* INTENDED design: every answer is the one a freshly built model with the *)
(* CURRENT configuration gives (S12AnswersCurrent) - in any order of       *)
(* representations, gradient / forward, assignments; a renamed copy is a   *)
(* model of its own: it keeps name and configuration it was made with      *)
(* whatever happens to the original or to other copies afterwards          *)
(* (S12RenamedFrozen).  Named deviations (constant Dev of ModelGeom):      *)
(*   StaleAfterSetGeometry   an assignment of a geometry leaves in place   *)
(*                           what the first evaluation kept                *)
(*   RenameSharesState       copies and original share one mutable state:  *)
(*                           a later assignment / renaming reaches the     *)
(*                           copies made before                            *)
(* The NUMBERS are not repeated here: a step records the pair `ans` of the *)
(* configuration whose values are answered, and the run emits, through     *)
(* C12Eval(., "emit") of ModelGeom, the exact outputs / gradient / refusal *)
(* flags of every configuration (model kind, S12D[d], S12R[r]) once.       *)
(***************************************************************************)
EXTENDS ModelGeom

CONSTANTS S12Depth,     \* number of actions of a behaviour
          S12Wide       \* TRUE: the wide lattice (all model kinds, more geometries)

\* geometries that can be exchanged on a living model: the core operator keeps working on function VECTORS of length 6 / 4
S12D == << Geo("cont1d", 6, 6, 1, 6, "", <<>>),
           Geo("ugradtri", 6, 6, 1, 6, "", <<>>),
           Geo("step", 6, StepK(6, FALSE), 1, 6, "mean", StepAsg(6, FALSE)),
           Geo("mapped", 6, 6, 1, 6, "", <<>>) >>
        \o (IF S12Wide THEN << Geo("linexp", 6, LinK(6), 1, 6, "", <<>>),
                               Geo("ugradlin", 6, 3, 1, 6, "", <<>>),
                               Geo("discrete", 6, 6, 1, 6, "", <<>>),
                               Geo("default1d", 6, 6, 1, 6, "", <<>>) >>
            ELSE <<>>)
S12R == << Geo("cont1d", 4, 4, 1, 4, "", <<>>),
           Geo("mapped", 4, 4, 1, 4, "", <<>>) >>
        \o (IF S12Wide THEN << Geo("step", 4, StepK(4, FALSE), 1, 4, "mean", StepAsg(4, FALSE)),
                               Geo("linexp", 4, LinK(4), 1, 4, "", <<>>) >>
            ELSE <<>>)
\* a default geometry is what the constructor makes of an int: a start value only, never assigned
S12Assignable(mk, g) == g.kind # "default1d" /\ (IsPde(mk) => Linear(g))
S12Reps == {"par_nd", "fun_nd", "arr_par", "arr_fun", "samples"}
S12Names == <<"z", "y">>                              \* names of the distributions the model is applied to, in turn

\* <<model kind, domain geometry, range geometry, core operator>> of the freshly constructed model
S12Start == IF S12Wide
            THEN { t \in { <<mk, p[1], p[2], p[3]>> : mk \in GenKinds, p \in {<<8, 1, 1>>, <<2, 1, 2>>, <<5, 3, 1>>} } :
                     IsPde(t[1]) => Linear(S12D[t[2]]) }
                 \cup { <<mk, 6, 1, 2>> : mk \in {k \in GenKinds : IsPde(k)} }
            ELSE { <<"gen_grad", 2, 1, 1>>, <<"lin_dense", 1, 1, 1>>, <<"pde_jac", 4, 2, 1>>, <<"gen_jac", 3, 1, 1>> }
S12Kinds == { t[1] : t \in S12Start }

\* ---------------------------------------------------------------------------
S12Cur(s) == <<s.d, s.r>>
\* the pair of geometries an evaluation of the original is made with
S12Ans(s) == IF "StaleAfterSetGeometry" \in Dev /\ s.ev # <<>> THEN s.ev ELSE S12Cur(s)
S12Step(a, rep, g, i, s2, ans, arg, n) ==
    [a |-> a, rep |-> rep, vi |-> 1 + (n % 2), g |-> g, i |-> i, d |-> s2.d, r |-> s2.r, ans |-> ans, arg |-> arg]
S12Log(s, s2, st) == [s2 EXCEPT !.hist = Append(s.hist, st)]

S12Eval(s, a, rep) ==
    LET s2 == [s EXCEPT !.ev = IF s.ev = <<>> THEN S12Cur(s) ELSE s.ev, !.last = rep]
    IN S12Log(s, s2, S12Step(a, rep, 0, 0, s2, S12Ans(s), s.arg, Len(s.hist)))

S12Set(s, side, g) ==
    LET upd(m) == IF side = "D" THEN [m EXCEPT !.d = g] ELSE [m EXCEPT !.r = g]
        s2 == [upd(s) EXCEPT !.ev = IF "StaleAfterSetGeometry" \in Dev THEN s.ev ELSE <<>>,
                             !.pool = IF "RenameSharesState" \in Dev THEN [j \in 1..Len(s.pool) |-> upd(s.pool[j])] ELSE s.pool]
    IN S12Log(s, s2, S12Step("S" \o side, "", g, 0, s2, <<>>, s.arg, Len(s.hist)))

S12Rename(s) ==
    LET name == S12Names[Len(s.pool) + 1]
        m    == [arg |-> name, d |-> s.d, r |-> s.r]
        old  == IF "RenameSharesState" \in Dev THEN [j \in 1..Len(s.pool) |-> [s.pool[j] EXCEPT !.arg = name]] ELSE s.pool
        s2   == [s EXCEPT !.pool = Append(old, m), !.made = Append(s.made, m)]
    IN S12Log(s, s2, S12Step("RN", "", 0, Len(s2.pool), s2, <<>>, name, Len(s.hist)))

S12Use(s, i, a) ==
    LET m == s.pool[i]
    IN S12Log(s, s, S12Step(a, "par_kw", 0, i, s, <<m.d, m.r>>, m.arg, Len(s.hist)))

S12CfgStates(mk) == { [part |-> "S12cfg", mk |-> mk, dg |-> S12D[d], rg |-> S12R[r], fi |-> fi] :
                        d \in {j \in 1..Len(S12D) : IsPde(mk) => Linear(S12D[j])}, r \in 1..Len(S12R),
                        fi \in { t[4] : t \in {u \in S12Start : u[1] = mk} } }
S12StartStates(mk) == { [part |-> "S12", mk |-> t[1], fi |-> t[4], d0 |-> t[2], r0 |-> t[3], d |-> t[2], r |-> t[3],
                         ev |-> <<>>, last |-> "", arg |-> "x", pool |-> <<>>, made |-> <<>>, hist |-> <<>>] :
                          t \in {u \in S12Start : u[1] = mk} }

\* the initial states are seeds (TLC evaluates the invariants of initial states in one thread)
InitS12 == c \in { [part |-> "S12seed", mk |-> mk] : mk \in S12Kinds }
NextS12 ==
    \/ /\ c.part = "S12seed"
       /\ c' \in (S12CfgStates(c.mk) \cup S12StartStates(c.mk))
    \/ /\ c.part = "S12" /\ Len(c.hist) < S12Depth
       /\ \/ \E rep \in S12Reps : c' = S12Eval(c, "F", rep)
          \/ c' = S12Eval(c, "G", "grad")
          \/ \E i \in 1..Len(c.pool) : c' = S12Use(c, i, "UR")
          \/ S12Wide /\ \E i \in 1..Len(c.pool) : c' = S12Use(c, i, "URG")
          \* an assignment / a renaming answers nothing: never the last action of a behaviour
          \/ /\ Len(c.hist) < S12Depth - 1
             /\ \/ \E g \in 1..Len(S12D) : g # c.d /\ S12Assignable(c.mk, S12D[g]) /\ c' = S12Set(c, "D", g)
                \/ \E g \in 1..Len(S12R) : g # c.r /\ S12Assignable(c.mk, S12R[g]) /\ c' = S12Set(c, "R", g)
                \/ Len(c.pool) < Len(S12Names) /\ c' = S12Rename(c)

\* ---------------------------------------------------------------------------
\* every answer of the original is that of a freshly built model with the configuration it has at that moment
S12AnswersCurrent == c.part = "S12" =>
    \A j \in 1..Len(c.hist) : LET st == c.hist[j] IN st.a \in {"F", "G"} => (st.ans = <<st.d, st.r>> /\ st.arg = "x")
\* a renamed copy keeps the name and the configuration it was made with
S12RenamedFrozen == c.part = "S12" =>
    /\ c.pool = c.made
    /\ \A j \in 1..Len(c.hist) : LET st == c.hist[j]
                                 IN st.a \in {"UR", "URG"} => (st.ans = <<c.made[st.i].d, c.made[st.i].r>> /\ st.arg = c.made[st.i].arg)
\* the copies carry the names of the distributions, in turn; the original keeps its own
S12NamesInTurn == c.part = "S12" => (c.arg = "x" /\ \A j \in 1..Len(c.pool) : c.made[j].arg = S12Names[j])

S12Emit == Emit =>
    CASE c.part = "S12cfg" -> C12Eval(c, "emit")
      [] c.part = "S12" /\ c.hist = <<>> ->
            PrintT("@@CASE " \o ToJson([kind |-> "seq12init", mk |-> c.mk, fi |-> c.fi, d |-> c.d, r |-> c.r,
                                        D |-> S12D, R |-> S12R, depth |-> S12Depth]) \o " @@END")
      [] c.part = "S12" /\ Len(c.hist) = S12Depth ->
            PrintT("@@CASE " \o ToJson([kind |-> "seq12", mk |-> c.mk, fi |-> c.fi, d0 |-> c.d0, r0 |-> c.r0,
                                        steps |-> c.hist]) \o " @@END")
      [] OTHER -> TRUE
=============================================================================
