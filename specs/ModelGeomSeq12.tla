--------------------------- MODULE ModelGeomSeq12 ---------------------------
(***************************************************************************)
(* Property C12, sequences of public operations on ONE model object.       *)
(*                                                                         *)
(* ModelGeom (part C12) describes a FRESHLY constructed model: for every   *)
(* configuration (model kind, domain geometry, range geometry) the output  *)
(* H+(F(G v)) on every representation of the input, the gradient / its     *)
(* refusal, and renaming.  This module is a small state machine over one   *)
(* model object that a user keeps and uses repeatedly:                     *)
(*     F(rep)      m.forward(<input vi in representation rep>)             *)
(*     G           m.gradient(direction, wrt)                              *)
(*     SD(g')      m.domain_geometry = g'   (public attribute, `:ivar`)    *)
(*     SR(g')      m.range_geometry  = g'                                  *)
(*     RN          n_i = m(dist_i)          (renaming: a new model the     *)
(*                                           user now holds as well)       *)
(*     UR(i)/URG(i)  n_i.forward(<name_i> = v) / n_i.gradient(...)         *)
(* The abstract state of the object:                                       *)
(*     d, r     the geometries it has NOW (indices into S12D / S12R)       *)
(*     ev       what an implementation that converts / classifies its      *)
(*              geometries once would keep: the pair in use at the first   *)
(*              evaluation (<<>> = nothing kept)                           *)
(*     last     the representation evaluated last                          *)
(*     arg      its argument name                                          *)
(*     pool     the renamed copies held by the user: <<[arg, d, r]>>       *)
(*     made     the same records as they were when the copy was made       *)
(* INTENDED design: every answer is the one a freshly built model with the *)
(* CURRENT configuration gives (S12AnswersCurrent) - in any order of       *)
(* representations, gradient / forward, assignments; a renamed copy is a   *)
(* model of its own: it keeps name and configuration it was made with      *)
(* whatever happens to the original or to other copies afterwards          *)
(* (S12RenamedFrozen).  Named deviations (constant Dev of ModelGeom):      *)
(*   StaleAfterSetGeometry   an assignment of a geometry leaves in place   *)
(*                           what the first evaluation kept                *)
(*   RenameSharesState       copies and original share one mutable state:  *)
(*                           a later assignment / renaming reaches the     *)
(*                           copies made before                            *)
(* The NUMBERS are not repeated here: a step records the pair `ans` of the *)
(* configuration whose values are answered, and the run emits, through     *)
(* C12Eval(., "emit") of ModelGeom, the exact outputs / gradient / refusal *)
(* flags of every configuration (model kind, S12D[d], S12R[r]) once.       *)
(***************************************************************************)
EXTENDS ModelGeom

CONSTANTS S12Depth,     \* number of actions of a behaviour
          S12Wide       \* TRUE: the wide lattice (all model kinds, more geometries)

\* geometries that can be exchanged on a living model: the core operator keeps working on function VECTORS of length 6 / 4
S12D == << Geo("cont1d", 6, 6, 1, 6, "", <<>>),
           Geo("ugradtri", 6, 6, 1, 6, "", <<>>),
           Geo("step", 6, StepK(6, FALSE), 1, 6, "mean", StepAsg(6, FALSE)),
           Geo("mapped", 6, 6, 1, 6, "", <<>>) >>
        \o (IF S12Wide THEN << Geo("linexp", 6, LinK(6), 1, 6, "", <<>>),
                               Geo("ugradlin", 6, 3, 1, 6, "", <<>>),
                               Geo("discrete", 6, 6, 1, 6, "", <<>>),
                               Geo("default1d", 6, 6, 1, 6, "", <<>>) >>
            ELSE <<>>)
S12R == << Geo("cont1d", 4, 4, 1, 4, "", <<>>),
           Geo("mapped", 4, 4, 1, 4, "", <<>>) >>
        \o (IF S12Wide THEN << Geo("step", 4, StepK(4, FALSE), 1, 4, "mean", StepAsg(4, FALSE)),
                               Geo("linexp", 4, LinK(4), 1, 4, "", <<>>) >>
            ELSE <<>>)
\* a default geometry is what the constructor makes of an int: a start value only, never assigned
S12Assignable(mk, g) == g.kind # "default1d" /\ (IsPde(mk) => Linear(g))
S12Reps == {"par_nd", "fun_nd", "arr_par", "arr_fun", "samples"}
S12Names == <<"z", "y">>                              \* names of the distributions the model is applied to, in turn

\* <<model kind, domain geometry, range geometry, core operator>> of the freshly constructed model
S12Start == IF S12Wide
            THEN { t \in { <<mk, p[1], p[2], p[3]>> : mk \in GenKinds, p \in {<<8, 1, 1>>, <<2, 1, 2>>, <<5, 3, 1>>} } :
                     IsPde(t[1]) => Linear(S12D[t[2]]) }
                 \cup { <<mk, 6, 1, 2>> : mk \in {k \in GenKinds : IsPde(k)} }
            ELSE { <<"gen_grad", 2, 1, 1>>, <<"lin_dense", 1, 1, 1>>, <<"pde_jac", 4, 2, 1>>, <<"gen_jac", 3, 1, 1>> }
S12Kinds == { t[1] : t \in S12Start }

\* ---------------------------------------------------------------------------
S12Cur(s) == <<s.d, s.r>>
\* the pair of geometries an evaluation of the original is made with
S12Ans(s) == IF "StaleAfterSetGeometry" \in Dev /\ s.ev # <<>> THEN s.ev ELSE S12Cur(s)
S12Step(a, rep, g, i, s2, ans, arg, n) ==
    [a |-> a, rep |-> rep, vi |-> 1 + (n % 2), g |-> g, i |-> i, d |-> s2.d, r |-> s2.r, ans |-> ans, arg |-> arg]
S12Log(s, s2, st) == [s2 EXCEPT !.hist = Append(s.hist, st)]

S12Eval(s, a, rep) ==
    LET s2 == [s EXCEPT !.ev = IF s.ev = <<>> THEN S12Cur(s) ELSE s.ev, !.last = rep]
    IN S12Log(s, s2, S12Step(a, rep, 0, 0, s2, S12Ans(s), s.arg, Len(s.hist)))

S12Set(s, side, g) ==
    LET upd(m) == IF side = "D" THEN [m EXCEPT !.d = g] ELSE [m EXCEPT !.r = g]
        s2 == [upd(s) EXCEPT !.ev = IF "StaleAfterSetGeometry" \in Dev THEN s.ev ELSE <<>>,
                             !.pool = IF "RenameSharesState" \in Dev THEN [j \in 1..Len(s.pool) |-> upd(s.pool[j])] ELSE s.pool]
    IN S12Log(s, s2, S12Step("S" \o side, "", g, 0, s2, <<>>, s.arg, Len(s.hist)))

S12Rename(s) ==
    LET name == S12Names[Len(s.pool) + 1]
        m    == [arg |-> name, d |-> s.d, r |-> s.r]
        old  == IF "RenameSharesState" \in Dev THEN [j \in 1..Len(s.pool) |-> [s.pool[j] EXCEPT !.arg = name]] ELSE s.pool
        s2   == [s EXCEPT !.pool = Append(old, m), !.made = Append(s.made, m)]
    IN S12Log(s, s2, S12Step("RN", "", 0, Len(s2.pool), s2, <<>>, name, Len(s.hist)))

S12Use(s, i, a) ==
    LET m == s.pool[i]
    IN S12Log(s, s, S12Step(a, "par_kw", 0, i, s, <<m.d, m.r>>, m.arg, Len(s.hist)))

S12CfgStates(mk) == { [part |-> "S12cfg", mk |-> mk, dg |-> S12D[d], rg |-> S12R[r], fi |-> fi] :
                        d \in {j \in 1..Len(S12D) : IsPde(mk) => Linear(S12D[j])}, r \in 1..Len(S12R),
                        fi \in { t[4] : t \in {u \in S12Start : u[1] = mk} } }
S12StartStates(mk) == { [part |-> "S12", mk |-> t[1], fi |-> t[4], d0 |-> t[2], r0 |-> t[3], d |-> t[2], r |-> t[3],
                         ev |-> <<>>, last |-> "", arg |-> "x", pool |-> <<>>, made |-> <<>>, hist |-> <<>>] :
                          t \in {u \in S12Start : u[1] = mk} }

\* the initial states are seeds (TLC evaluates the invariants of initial states in one thread)
InitS12 == c \in { [part |-> "S12seed", mk |-> mk] : mk \in S12Kinds }
NextS12 ==
    \/ /\ c.part = "S12seed"
       /\ c' \in (S12CfgStates(c.mk) \cup S12StartStates(c.mk))
    \/ /\ c.part = "S12" /\ Len(c.hist) < S12Depth
       /\ \/ \E rep \in S12Reps : c' = S12Eval(c, "F", rep)
          \/ c' = S12Eval(c, "G", "grad")
          \/ \E i \in 1..Len(c.pool) : c' = S12Use(c, i, "UR")
          \/ S12Wide /\ \E i \in 1..Len(c.pool) : c' = S12Use(c, i, "URG")
          \* an assignment / a renaming answers nothing: never the last action of a behaviour
          \/ /\ Len(c.hist) < S12Depth - 1
             /\ \/ \E g \in 1..Len(S12D) : g # c.d /\ S12Assignable(c.mk, S12D[g]) /\ c' = S12Set(c, "D", g)
                \/ \E g \in 1..Len(S12R) : g # c.r /\ S12Assignable(c.mk, S12R[g]) /\ c' = S12Set(c, "R", g)
                \/ Len(c.pool) < Len(S12Names) /\ c' = S12Rename(c)

\* ---------------------------------------------------------------------------
\* every answer of the original is that of a freshly built model with the configuration it has at that moment
S12AnswersCurrent == c.part = "S12" =>
    \A j \in 1..Len(c.hist) : LET st == c.hist[j] IN st.a \in {"F", "G"} => (st.ans = <<st.d, st.r>> /\ st.arg = "x")
\* a renamed copy keeps the name and the configuration it was made with
S12RenamedFrozen == c.part = "S12" =>
    /\ c.pool = c.made
    /\ \A j \in 1..Len(c.hist) : LET st == c.hist[j]
                                 IN st.a \in {"UR", "URG"} => (st.ans = <<c.made[st.i].d, c.made[st.i].r>> /\ st.arg = c.made[st.i].arg)
\* the copies carry the names of the distributions, in turn; the original keeps its own
S12NamesInTurn == c.part = "S12" => (c.arg = "x" /\ \A j \in 1..Len(c.pool) : c.made[j].arg = S12Names[j])

S12Emit == Emit =>
    CASE c.part = "S12cfg" -> C12Eval(c, "emit")
      [] c.part = "S12" /\ c.hist = <<>> ->
            PrintT("@@CASE " \o ToJson([kind |-> "seq12init", mk |-> c.mk, fi |-> c.fi, d |-> c.d, r |-> c.r,
                                        D |-> S12D, R |-> S12R, depth |-> S12Depth]) \o " @@END")
      [] c.part = "S12" /\ Len(c.hist) = S12Depth ->
            PrintT("@@CASE " \o ToJson([kind |-> "seq12", mk |-> c.mk, fi |-> c.fi, d0 |-> c.d0, r0 |-> c.r0,
                                        steps |-> c.hist]) \o " @@END")
      [] OTHER -> TRUE
\* ===========================================================================
\* Part X12: ONE INPUT OBJECT that is used, modified IN PLACE and used again
\* ===========================================================================
\* The parts above (and ModelGeom, part C12) hand every call a freshly built input.  A user keeps the input object:
\*     x = CUQIarray(v, geometry=G); y1 = model(x); x *= 2; y2 = model(x)
\* "The value of an array argument is its content at call time" - whatever happened to the object before: it was
\* converted (x.funvals / x.parameters read), a model was applied to it, and then its buffer was changed by any of the
\* in-place routes numpy offers (augmented assignment, ufunc out=, setitem, fill, sort, put, copyto, place, putmask,
\* flat[i] = v, ...) or through a VIEW of the same buffer (x.view(), x.view(np.ndarray), np.asarray(x), x.to_numpy(),
\* the array it was constructed from, x[:]).  This part is a state machine over one such object:
\*     rep      which representation of C12 the object is: CUQIarray of parameters / of function values (carrying the
\*              model's domain geometry), plain ndarray of parameters / of function values, Samples of parameters / of
\*              function values
\*     cols     its CONTENT now: the exact vector (one column; two for Samples) - every action transforms it exactly
\*     cache    what an implementation that keeps a conversion on the INPUT OBJECT would hold: the content at the first
\*              converting Use (<<>> = nothing kept; emptied by a setitem on the object itself)
\*     memo     what an implementation that keeps (input object -> output) in the MODEL would hold
\*     bound    (Samples) the array the object was constructed from is still the one it holds (s.samples = V rebinds)
\* Actions (strictly alternating, a behaviour starts and ends with a Use):
\*     Use(kind)              kind in funvals | parameters | fwd (model(x) / model.forward(x)) | grad (model.gradient(d, x))
\*     EditInPlace(op)        one of the in-place routes, applied to the object itself               (via = "x" / "attr")
\*     EditThroughView(via, op)   the same through a view of its buffer
\* INTENDED design: every Use answers with the exact value Val(kind, content NOW) (X12SeesCurrent) and leaves the content
\* alone (X12UseKeepsContent).  Named deviations:
\*   FunvalsCachedAcrossInPlaceEdit   the function values of a CUQIarray of parameters are kept on the array at the first
\*                        Use and dropped only by a setitem on the array itself (or a new geometry)
\*   ModelMemoByInputIdentity         the model remembers the output it computed for an input OBJECT
\*   UseConvertsInPlace               forward writes the function values into the caller's buffer
\* Only edits whose result is exactly representable (integers, halves, quarters) are enabled; x **= 2 only on small entries.
\* The NUMBERS: a step records the content after the action and the content `basis` the answer is computed from; the run
\* emits Val for every distinct (configuration, parameter- / function-typed, column) once (states "X12val").
CONSTANT X12Mode        \* "quick" | "full" | "wide" | "deep"   (lattice of this part; the other parts ignore it)

X12D(kind) == CASE kind = "step"     -> Geo("step", 6, StepK(6, FALSE), 1, 6, "mean", StepAsg(6, FALSE))
                [] kind = "stepbal"  -> Geo("step", 6, StepK(6, TRUE), 1, 6, "mean", StepAsg(6, TRUE))
                [] kind = "linexp"   -> Geo("linexp", 6, LinK(6), 1, 6, "", <<>>)
                [] kind = "ugradlin" -> Geo("ugradlin", 6, 3, 1, 6, "", <<>>)
                [] kind \in {"imgC", "imgF", "cont2d"} -> Geo(kind, 6, 6, 2, 3, "", <<>>)
                [] OTHER             -> Geo(kind, 6, 6, 1, 6, "", <<>>)
X12R(kind) == CASE kind = "step"     -> Geo("step", 4, StepK(4, FALSE), 1, 4, "mean", StepAsg(4, FALSE))
                [] kind = "imgC"     -> Geo("imgC", 4, 4, 2, 2, "", <<>>)
                [] OTHER             -> Geo(kind, 4, 4, 1, 4, "", <<>>)

X12IsPar(rep)     == rep \in {"arr_par", "nd_par", "samples"}
X12IsSamples(rep) == rep \in {"samples", "samples_fun"}
X12IsArr(rep)     == rep \in {"arr_par", "arr_fun"}
X12AllReps(k) == {"arr_par", "arr_fun", "nd_par", "nd_fun", "samples"} \cup (IF VecFun(k.dg) THEN {"samples_fun"} ELSE {})
X12Kinds(rep) == CASE X12IsArr(rep)        -> {"funvals", "parameters", "fwd", "grad"}
                   [] rep = "samples"      -> {"funvals", "parameters", "fwd"}
                   [] rep = "samples_fun"  -> {"parameters", "fwd"}
                   [] OTHER                -> {"fwd", "grad"}

\* the lean lattice: model kind x domain x range geometry, and the representations exercised in the quick tier
X12LeanList == <<
    [mk |-> "lin_dense",  d |-> "step",     r |-> "cont1d", reps |-> {"arr_par", "arr_fun", "nd_par", "samples", "samples_fun"}],
    [mk |-> "gen_grad",   d |-> "ugradtri", r |-> "cont1d", reps |-> {"arr_par", "arr_fun", "nd_par", "nd_fun"}],
    [mk |-> "gen_nograd", d |-> "linexp",   r |-> "step",   reps |-> {"arr_par", "arr_fun", "samples"}],
    [mk |-> "gen_jac",    d |-> "mapped",   r |-> "mapped", reps |-> {"arr_par", "samples", "nd_fun"}],
    [mk |-> "lin_func",   d |-> "imgF",     r |-> "imgC",   reps |-> {"arr_par", "arr_fun"}],
    [mk |-> "pde_jac",    d |-> "cont1d",   r |-> "cont1d", reps |-> {"arr_par", "nd_par"}],
    [mk |-> "gen_grad",   d |-> "ugradlin", r |-> "cont1d", reps |-> {"arr_par", "samples_fun"}] >>
X12K(mk, dg, rg, fi) == [mk |-> mk, dg |-> dg, rg |-> rg, fi |-> fi]
X12LeanK(e) == X12K(e.mk, X12D(e.d), X12R(e.r), 1)
X12WideKs == { k \in ({ X12K(mk, X12D(d), X12R("cont1d"), 1) : mk \in GenKinds,
                         d \in {"step", "stepbal", "linexp", "ugradlin", "imgC", "imgF", "cont2d", "cont1d", "discrete", "mapped",
                                "ugradtri", "mappednl", "noinv", "ugradnoinv"} }
                      \cup { X12K(mk, X12D(d), X12R(r), 2) : mk \in GenKinds, d \in {"step", "ugradtri"}, r \in {"mapped", "step", "imgC"} }) :
                 C12Valid(k) }
X12Entries ==
    CASE X12Mode = "quick" -> { [k |-> X12LeanK(X12LeanList[i]), reps |-> X12LeanList[i].reps] : i \in 1..Len(X12LeanList) }
      [] X12Mode = "full"  -> { [k |-> X12LeanK(X12LeanList[i]), reps |-> X12AllReps(X12LeanK(X12LeanList[i]))] : i \in 1..Len(X12LeanList) }
      [] X12Mode = "deep"  -> { [k |-> X12LeanK(X12LeanList[i]), reps |-> X12LeanList[i].reps \cap {"arr_par", "arr_fun", "samples"}] : i \in 1..3 }
      [] X12Mode = "wide"  -> { [k |-> k, reps |-> X12AllReps(k)] : k \in X12WideKs }

\* --- in-place routes ------------------------------------------------------------------------------------------------
\* mechanisms applied to the array object itself ...
X12DirectOps == CASE X12Mode = "wide" -> {"imul2", "iadd", "idiv2", "ipow2", "uf_neg", "uf_clip", "set_all", "set_i", "set_slice", "fill",
                                          "sort", "put", "place", "putmask", "flat_i"}                \* one mechanism per effect
                  [] X12Mode = "deep" -> {"imul2", "iadd", "uf_neg", "set_all", "set_i", "fill", "sort", "copyto"}
                  [] OTHER -> {"imul2", "iadd", "isub", "idiv2", "ipow2", "uf_mul", "uf_neg", "uf_add", "uf_clip", "set_all", "set_i",
                               "set_slice", "fill", "sort", "put", "np_put", "copyto", "place", "putmask", "flat_i", "itemset", "real", "setfield"}
\* ... their exact effect on the content ...
X12Eff(op) == CASE op \in {"imul2", "uf_mul"} -> "mul2"
                [] op \in {"iadd", "uf_add"}  -> "add"
                [] op = "isub"                -> "sub"
                [] op = "idiv2"               -> "div2"
                [] op = "ipow2"               -> "pow2"
                [] op = "uf_neg"              -> "neg"
                [] op = "uf_clip"             -> "clip"
                [] op \in {"set_all", "copyto", "real", "setfield", "rebind"} -> "set_all"
                [] op \in {"set_i", "itemset"} -> "set_i"
                [] op \in {"put", "np_put"}   -> "put"
                [] OTHER                      -> op
\* ... which of them are a setitem on the object itself (what the deviation's cache is emptied by) ...
X12SetItemOps == {"set_all", "set_i", "set_slice"}
\* ... and the views of the buffer an edit can go through
X12Views(rep) == IF X12IsArr(rep) THEN (IF X12Mode = "deep" THEN {"view_nd", "base"} ELSE {"view", "view_nd", "asarray", "to_numpy", "base", "slice"})
                 ELSE (IF X12Mode = "deep" THEN {"view"} ELSE {"view", "asarray", "slice"})
X12ViewOps == IF X12Mode \in {"wide", "deep"} THEN {"imul2", "set_all"} ELSE {"set_all", "imul2", "set_i"}
\* Samples: the array s.samples (parameters x samples), through the attribute, through the array given to the constructor, a view
X12SampOps == IF X12Mode = "deep" THEN {"imul2", "col_imul2", "set_col", "rebind"}
              ELSE {"imul2", "col_imul2", "set_all", "set_col", "set_elem", "fill", "uf_neg", "iadd", "copyto", "rebind"}
X12SampViews == {"orig", "view"}
X12SampViewOps == IF X12Mode = "deep" THEN {"imul2"} ELSE {"imul2", "set_col", "set_all"}
X12Routes(rep) == IF X12IsSamples(rep)
                  THEN { <<"attr", op>> : op \in X12SampOps } \cup (X12SampViews \X X12SampViewOps)
                  ELSE { <<"x", op>> : op \in X12DirectOps } \cup (X12Views(rep) \X X12ViewOps)

\* data of the edits (integer lattice vectors, constants outside the range -3..3 of the start contents)
X12Delta(n) == VR(IVecB(n, 2))
X12New(n)   == VR(IVecA(n, 3))
X12New2(n)  == VR(IVecB(n, 4))
X12C == [set |-> 5, put_first |-> 7, put_last |-> -4, place |-> 5, mask |-> 4, flat |-> 6, clip_lo |-> -1, clip_hi |-> 1]
X12Rank(x, j) == Cardinality({l \in 1..Len(x) : RLt(x[l], x[j])}) + Cardinality({l \in 1..(j - 1) : x[l] = x[j]}) + 1
X12Sort(x) == F([i \in 1..Len(x) |-> x[CHOOSE j \in 1..Len(x) : X12Rank(x, j) = i]])
\* effect on ONE column x; q = length of the rows of the array (the whole length for a 1-D array)
X12EffCol(eff, x, q) ==
    LET n == Len(x) IN
    CASE eff = "mul2"      -> VScale(Two, x)
      [] eff = "add"       -> VAdd(x, X12Delta(n))
      [] eff = "sub"       -> VSub(x, X12Delta(n))
      [] eff = "div2"      -> VScale(Half, x)
      [] eff = "pow2"      -> F([i \in 1..n |-> RSq(x[i])])
      [] eff = "neg"       -> F([i \in 1..n |-> RNeg(x[i])])
      [] eff = "clip"      -> F([i \in 1..n |-> RMax(R(X12C.clip_lo), RMin(R(X12C.clip_hi), x[i]))])                  \* np.clip(x, -1, 1, out=x)
      [] eff = "set_all"   -> X12New(n)                                                         \* x[...] = v
      [] eff = "set_i"     -> F([i \in 1..n |-> IF i = 2 THEN R(X12C.set) ELSE x[i]])          \* x[<index of flat position 1>] = 5
      [] eff = "set_slice" -> F([i \in 1..n |-> IF (IF q = n THEN i \in {2, 3} ELSE i <= q) THEN R(X12C.set) ELSE x[i]])   \* x[1:3] = 5 | x[0:1] = 5
      [] eff = "fill"      -> F([i \in 1..n |-> R(X12C.set)])
      [] eff = "sort"      -> F([i \in 1..n |-> LET b == (i - 1) \div q                          \* x.sort(): along the last axis
                                                    row == [j \in 1..q |-> x[(b * q) + j]]
                                                IN X12Sort(row)[i - (b * q)]])
      [] eff = "put"       -> F([i \in 1..n |-> IF i = 1 THEN R(X12C.put_first) ELSE IF i = n THEN R(X12C.put_last) ELSE x[i]])   \* x.put([0, n-1], [7, -4])
      [] eff = "place"     -> F([i \in 1..n |-> IF RLt(Zero, x[i]) THEN R(X12C.place) ELSE x[i]])        \* np.place(x, x > 0, [5])
      [] eff = "putmask"   -> F([i \in 1..n |-> IF RLt(x[i], Zero) THEN R(X12C.mask) ELSE x[i]])        \* np.putmask(x, x < 0, 4)
      [] eff = "flat_i"    -> F([i \in 1..n |-> IF i = n - 1 THEN R(X12C.flat) ELSE x[i]])              \* x.flat[n-2] = 6
\* effect on the two columns of a Samples object
X12EffSamples(op, cs) ==
    LET n == Len(cs[1]) IN
    CASE op = "col_imul2" -> << cs[1], VScale(Two, cs[2]) >>                                    \* s.samples[:, 1] *= 2
      [] op = "set_col"   -> << X12New(n), cs[2] >>                                             \* s.samples[:, 0] = v
      [] op = "set_elem"  -> << cs[1], F([i \in 1..n |-> IF i = 2 THEN R(X12C.set) ELSE cs[2][i]]) >>  \* s.samples[1, 1] = 5
      [] op \in {"set_all", "copyto", "rebind"} -> << X12New(n), X12New2(n) >>
      [] op = "iadd"      -> << VAdd(cs[1], X12Delta(n)), VAdd(cs[2], X12Delta(n)) >>           \* s.samples += d[:, None]
      [] OTHER            -> [j \in 1..2 |-> X12EffCol(X12Eff(op), cs[j], n)]                   \* imul2, fill, uf_neg
X12Q(s) == IF X12IsPar(s.rep) \/ VecFun(s.k.dg) THEN Len(s.cols[1]) ELSE s.k.dg.q
X12Small(cs) == \A j \in 1..Len(cs) : \A i \in 1..Len(cs[j]) : RLe(RAbs(cs[j][i]), R(3))
X12DenLe(cs, m) == \A j \in 1..Len(cs) : \A i \in 1..Len(cs[j]) : cs[j][i][2] <= m
\* only edits whose result stays exactly representable (and small enough for the exact arithmetic of the specification)
X12Enabled(s, rt) == /\ (rt[2] = "ipow2" => (X12Small(s.cols) /\ X12DenLe(s.cols, 4)))
                     /\ (rt[2] = "idiv2" => X12DenLe(s.cols, 8))
X12After(s, via, op) == IF via = "orig" /\ ~s.bound THEN s.cols                      \* the array given to the constructor is no longer held
                        ELSE IF X12IsSamples(s.rep) THEN X12EffSamples(op, s.cols)
                        ELSE << X12EffCol(X12Eff(op), s.cols[1], X12Q(s)) >>

\* --- exact value of every Use ------------------------------------------------------------------------------------------
X12FV(k, u) == IF IsPde(k.mk) THEN MSolve(PdeA(u), PdeB(k.fi))
               ELSE LET A == MR(CoreF(k.fi, k.rg.n, k.dg.n))
                        B == IF IsLin(k.mk) THEN MZero(k.rg.n, k.dg.n) ELSE MR(CoreB(k.fi, k.rg.n, k.dg.n))
                    IN VAdd(MV(A, u), MV(B, F([i \in 1..Len(u) |-> RSq(u[i])])))
X12JFT(k, u, d) == IF IsPde(k.mk)
                   THEN LET Ai == MInv(PdeA(u))
                            s  == MV(Ai, PdeB(k.fi))
                            z  == MV(MT(Ai), d)
                        IN F([p \in 1..6 |-> RNeg(RMul(z[PdePos[p][1]], s[PdePos[p][2]]))])
                   ELSE LET A == MR(CoreF(k.fi, k.rg.n, k.dg.n))
                            B == IF IsLin(k.mk) THEN MZero(k.rg.n, k.dg.n) ELSE MR(CoreB(k.fi, k.rg.n, k.dg.n))
                            Btd == MV(MT(B), d)
                        IN VAdd(MV(MT(A), d), F([j \in 1..Len(u) |-> RMul(RMul(Two, u[j]), Btd[j])]))
X12Dir(k) == VR(IVecA(k.rg.k, k.fi + 2))                                         \* direction of the gradient (range parameters)
X12Refused(k) == k.mk = "gen_nograd" \/ ~IdType(k.rg) \/ (~IdType(k.dg) /\ ~HasGrad(k.dg))
\* the parameters of a function-typed content are defined when the geometry has fun2par; its gradient is asserted where the
\* function values determine the parameters (par2fun bijective) and the par -> par map is differentiable
X12ParDefined(k, par)   == par \/ HasF2P(k.dg)
X12GradAsserted(k, par) == F2PLinear(k.rg) /\ (par \/ (k.dg.k = k.dg.n /\ HasF2P(k.dg)))
X12Val(k, par, kind, x) ==
    LET u == IF par THEN P2FV(k.dg, x) ELSE x                                    \* function values handed to the core operator
        p == IF par THEN x ELSE IF HasF2P(k.dg) THEN F2PV(k.dg, x) ELSE <<>>
    IN CASE kind = "funvals"    -> u
         [] kind = "parameters" -> p
         [] kind = "fwd"        -> F2PV(k.rg, X12FV(k, u))                       \* H+( F( G v ) )
         [] kind = "grad"       -> IF X12GradAsserted(k, par)
                                   THEN JGT(k.dg, p, X12JFT(k, u, MV(MT(GpM(k.rg)), X12Dir(k))))
                                   ELSE <<>>
X12Vals(k, par, kind, cs) == [j \in 1..Len(cs) |-> X12Val(k, par, kind, cs[j])]

\* --- the state machine ---------------------------------------------------------------------------------------------------
X12Cols0(k, rep) ==
    LET v1 == VR(IVecB(k.dg.k, k.fi))           \* (the inputs vs[2], vs[1] of C12Eval; first entry # 0)
        v2 == VR(IVecA(k.dg.k, k.fi))
        cs == IF X12IsSamples(rep) THEN <<v1, v2>> ELSE <<v1>>
    IN IF X12IsPar(rep) THEN cs ELSE [j \in 1..Len(cs) |-> P2FV(k.dg, cs[j])]
X12Log(s2, st) == [s2 EXCEPT !.hist = Append(@, st)]
X12Converting == {"funvals", "fwd", "grad"}                                     \* Uses that need the function values of the input
X12Use(s, kind) ==
    LET basis == IF "FunvalsCachedAcrossInPlaceEdit" \in Dev /\ s.rep = "arr_par" /\ kind \in X12Converting /\ s.cache # <<>> THEN s.cache
                 ELSE IF "ModelMemoByInputIdentity" \in Dev /\ kind = "fwd" /\ s.memo # <<>> THEN s.memo
                 ELSE s.cols
        cols2 == IF "UseConvertsInPlace" \in Dev /\ kind = "fwd" /\ X12IsPar(s.rep) /\ s.k.dg.k = s.k.dg.n
                 THEN [j \in 1..Len(s.cols) |-> P2FV(s.k.dg, s.cols[j])] ELSE s.cols
        s2 == [s EXCEPT !.cols = cols2,
                        !.cache = IF s.cache = <<>> /\ kind \in X12Converting THEN s.cols ELSE s.cache,
                        !.memo  = IF s.memo = <<>> /\ kind = "fwd" THEN s.cols ELSE s.memo]
    IN X12Log(s2, [a |-> "U", kind |-> kind, via |-> "", op |-> "", cols |-> cols2, basis |-> basis])
X12Edit(s, via, op) ==
    LET s2 == [s EXCEPT !.cols = X12After(s, via, op),
                        !.cache = IF via = "x" /\ op \in X12SetItemOps THEN <<>> ELSE s.cache,
                        !.bound = s.bound /\ op # "rebind"]
    IN X12Log(s2, [a |-> IF via \in {"x", "attr"} THEN "E" ELSE "V", kind |-> "", via |-> via, op |-> op, cols |-> s2.cols, basis |-> <<>>])

X12Start(e) == { [part |-> "X12", k |-> e.k, rep |-> rep, cols0 |-> X12Cols0(e.k, rep), cols |-> X12Cols0(e.k, rep),
                  cache |-> <<>>, memo |-> <<>>, bound |-> TRUE, hist |-> <<>>] : rep \in e.reps }
X12ValState(s, j) == [part |-> "X12val", k |-> s.k, par |-> X12IsPar(s.rep), col |-> s.cols[j]]

InitX12 == c \in { [part |-> "X12seed", e |-> e] : e \in X12Entries }
NextX12 ==
    \/ /\ c.part = "X12seed"
       /\ c' \in (X12Start(c.e) \cup { [part |-> "S12cfg", mk |-> c.e.k.mk, dg |-> c.e.k.dg, rg |-> c.e.k.rg, fi |-> c.e.k.fi] })
    \/ /\ c.part = "X12" /\ Len(c.hist) < S12Depth
       /\ IF Len(c.hist) % 2 = 0
          THEN \E kind \in X12Kinds(c.rep) : c' = X12Use(c, kind)
          ELSE \E rt \in X12Routes(c.rep) : X12Enabled(c, rt) /\ c' = X12Edit(c, rt[1], rt[2])
    \/ /\ c.part = "X12" /\ Emit
       /\ \E j \in 1..Len(c.cols) : c' = X12ValState(c, j)

\* ---------------------------------------------------------------------------
X12Last == c.hist[Len(c.hist)]
X12Prev == IF Len(c.hist) = 1 THEN c.cols0 ELSE c.hist[Len(c.hist) - 1].cols
\* the value a Use answers with is the exact value for the content the object has at that moment
\* (every prefix of a behaviour is a state: it suffices to look at the last step)
X12SeesCurrent == (c.part = "X12" /\ c.hist # <<>> /\ X12Last.a = "U") =>
    \/ X12Last.basis = X12Last.cols
    \/ X12Vals(c.k, X12IsPar(c.rep), X12Last.kind, X12Last.basis) = X12Vals(c.k, X12IsPar(c.rep), X12Last.kind, X12Last.cols)
\* a Use leaves the content of the caller's object alone
X12UseKeepsContent == (c.part = "X12" /\ c.hist # <<>> /\ X12Last.a = "U") => X12Last.cols = X12Prev
\* the content stays exactly representable: dyadic rationals with denominator <= 16
X12Exact == c.part = "X12" => \A j \in 1..Len(c.cols) : \A i \in 1..Len(c.cols[j]) : c.cols[j][i][2] \in {1, 2, 4, 8, 16}

X12Emit == Emit =>
    CASE c.part = "S12cfg" -> C12Eval(c, "emit")
      [] c.part = "X12seed" ->
            PrintT("@@CASE " \o ToJson([kind |-> "x12data", consts |-> X12C, depth |-> S12Depth, mode |-> X12Mode,
                                        vecs |-> [n \in 1..6 |-> [delta |-> IVecB(n, 2), new |-> IVecA(n, 3), new2 |-> IVecB(n, 4)]]]) \o " @@END")
      [] c.part = "X12" /\ Len(c.hist) = S12Depth ->
            PrintT("@@CASE " \o ToJson([kind |-> "x12", mk |-> c.k.mk, dg |-> c.k.dg, rg |-> c.k.rg, fi |-> c.k.fi, rep |-> c.rep,
                                        cols0 |-> c.cols0, steps |-> c.hist]) \o " @@END")
      [] c.part = "X12val" ->
            PrintT("@@CASE " \o ToJson([kind |-> "x12val", mk |-> c.k.mk, dg |-> c.k.dg, rg |-> c.k.rg, fi |-> c.k.fi, par |-> c.par,
                                        col |-> c.col,
                                        funvals |-> X12Val(c.k, c.par, "funvals", c.col),
                                        parameters |-> X12Val(c.k, c.par, "parameters", c.col),
                                        par_defined |-> X12ParDefined(c.k, c.par),
                                        fwd |-> X12Val(c.k, c.par, "fwd", c.col),
                                        grad |-> X12Val(c.k, c.par, "grad", c.col),
                                        grad_asserted |-> X12GradAsserted(c.k, c.par),
                                        refused |-> X12Refused(c.k), dir |-> X12Dir(c.k)]) \o " @@END")
      [] OTHER -> TRUE
=============================================================================
