---------------------------- MODULE FamiliesSib ----------------------------
(***************************************************************************)
(* Property C04, parts `Siblings` and `Buffers` (round 6).                 *)
(*                                                                         *)
(* The log-density an object reports is the documented density of ITS OWN  *)
(* parameters, evaluated for the values that are handed to the call AT THE *)
(* TIME OF THE CALL.  Two classes of behaviour in which this can fail      *)
(* although every freshly built object is right (the configuration lattice *)
(* and the part `Reassign` of module Families build fresh objects / use    *)
(* one object only):                                                       *)
(*                                                                         *)
(* SIBLINGS.  Objects derived from one another - copy.copy(O), O() resp.   *)
(* O(values) (conditioning makes a shallow copy), the prior held by the    *)
(* Posterior that JointDistribution(O, y)(y = data) returns - share, right *)
(* after the derivation, every array their parent holds.  A public setter  *)
(* used on ONE of them must not change what the OTHERS answer.  The model  *)
(* is a small heap:                                                        *)
(*     callable   the assignment units of the root O that are callables of *)
(*                conditioning variables (O is conditional iff non-empty)  *)
(*     live       objects made so far (O, S1, S2)                          *)
(*     val[w][u]  version (1 | 2; 0 = callable) of unit u of object w      *)
(*     ref[w][u]  the storage cell in which w keeps what it uses for u     *)
(*     heap[i]    version from which the content of cell i was made        *)
(*   SibDerive(s, kind, v)  s := a shallow copy of O: every cell shared;   *)
(*                the callable units get cells of their own (version v)    *)
(*   SibAssign(w, u)        public setter: unit u of w gets its other      *)
(*                version - in a NEW cell (the old one is left to whoever  *)
(*                else refers to it)                                       *)
(*   SibEvaluate(w)         w answers from the cells it refers to          *)
(* Invariant SibOwnParameters: every answer is made from the versions of   *)
(* the answering object's own parameters.  Named deviation                 *)
(* DevInPlaceSetter (FamiliesSib.siblings_inplace.deviation.cfg): the      *)
(* setter overwrites the content of the cell it finds - TLC must refute    *)
(* the invariant (Derive S1, Assign(S1, u), Evaluate O).                   *)
(*                                                                         *)
(* BUFFERS.  The caller keeps the values of the conditioning variables and *)
(* the evaluation point in arrays that are updated IN PLACE between calls  *)
(* (as a sampling loop with preallocated state does):                      *)
(*     entry      the evaluation entry point used by the behaviour         *)
(*     buf[b]     version (1 | 2) of the content of buffer b               *)
(*                ("cond": the arrays of the conditioning variables,       *)
(*                 "x": the array of the evaluation point)                 *)
(*     memo       <<>> or <<buf at the call from which the object last     *)
(*                kept anything>> (ghost)                                  *)
(*   BufWrite(b)  the content of b is replaced in place (same object)      *)
(*   BufCall      the entry point is called with the buffers; it leaves    *)
(*                the buffers as they are (frame)                          *)
(* Invariant BufContentAtCallTime: the value is computed from the content  *)
(* the buffers have when the call is made.  Named deviation                *)
(* DevIdentityMemo (FamiliesSib.buffers_identity.deviation.cfg): what was  *)
(* derived for a call is reused while the SAME OBJECTS are passed - TLC    *)
(* must refute the invariant (Call, Write, Call).                          *)
(*                                                                         *)
(* Both parts emit every behaviour up to the bound; the exact expected     *)
(* values of a version vector are the cases of the configuration lattice   *)
(* of module Families (start configuration k, second configuration =       *)
(* ReTarget of the part Reassign, mixed configurations = ReMix); the       *)
(* replay (harness/cuqiverif/c04_round6.py) drives the behaviours on real  *)
(* objects of every family and parameterisation.                           *)
(***************************************************************************)
EXTENDS Naturals, Sequences, FiniteSets, TLC, Json

CONSTANTS Part,               \* "siblings" | "buffers"
          DevInPlaceSetter,   \* named deviation of part Siblings; FALSE in the deciding configurations
          DevIdentityMemo,    \* named deviation of part Buffers; FALSE in the deciding configurations
          MaxOps,             \* operations per behaviour
          Emit

VARIABLE c

\* ======================================================================================================================
\* Siblings
\* ======================================================================================================================
Units   == {1, 2}
Objs    == {"O", "S1", "S2"}
Kinds   == {"copy", "call", "posterior"}          \* ways of deriving from an UNCONDITIONAL root; a conditional root: "cond"
Other(v) == 3 - v

SibInit ==
    c \in { [part |-> "siblings", callable |-> cs, live |-> {"O"},
             val |-> [w \in Objs |-> [u \in Units |-> IF w = "O" THEN (IF u \in cs THEN 0 ELSE 1) ELSE 0]],
             ref |-> [w \in Objs |-> [u \in Units |-> IF w = "O" THEN u ELSE 0]],
             heap |-> [u \in 1..2 |-> IF u \in cs THEN 0 ELSE 1],
             last |-> <<>>, ops |-> <<>>, nder |-> 0, nas |-> 0, nev |-> 0] : cs \in SUBSET Units }

SibMore == Len(c.ops) < MaxOps
Evaluable(w) == w \in c.live /\ \A u \in Units : c.val[w][u] # 0

SibDerive(s, kind, v) ==
    /\ SibMore /\ s \notin c.live /\ c.nder < 2
    /\ (s = "S2" => "S1" \in c.live)
    /\ (IF c.callable = {} THEN kind \in Kinds ELSE kind = "cond")
    /\ (c.callable = {} => v = 1)
    /\ LET cu   == c.callable
           n    == Len(c.heap)
           \* the callable units get cells of their own: n + 1 for unit 1, n + 2 for unit 2 (allocated whether used or not)
           nref == [u \in Units |-> IF u \in cu THEN n + u ELSE c.ref["O"][u]]
           nval == [u \in Units |-> IF u \in cu THEN v ELSE c.val["O"][u]]
       IN c' = [c EXCEPT !.live = @ \cup {s}, !.val[s] = nval, !.ref[s] = nref,
                         !.heap = @ \o <<(IF 1 \in cu THEN v ELSE 0), (IF 2 \in cu THEN v ELSE 0)>>,
                         !.last = <<>>, !.nder = @ + 1,
                         !.ops = Append(@, [op |-> "derive", who |-> s, kind |-> kind, ver |-> v])]

SibAssign(w, u) ==
    /\ SibMore /\ w \in c.live /\ c.val[w][u] # 0 /\ c.nas < 2
    /\ LET nv == Other(c.val[w][u])
       IN IF DevInPlaceSetter
          THEN c' = [c EXCEPT !.val[w][u] = nv, !.heap[c.ref[w][u]] = nv, !.last = <<>>, !.nas = @ + 1,
                              !.ops = Append(@, [op |-> "assign", who |-> w, unit |-> u])]
          ELSE c' = [c EXCEPT !.val[w][u] = nv, !.heap = Append(@, nv), !.ref[w][u] = Len(c.heap) + 1, !.last = <<>>, !.nas = @ + 1,
                              !.ops = Append(@, [op |-> "assign", who |-> w, unit |-> u])]

SibEvaluate(w) ==
    /\ SibMore /\ Evaluable(w) /\ c.nev < 3
    /\ c' = [c EXCEPT !.last = <<[u \in Units |-> c.heap[c.ref[w][u]]], c.val[w]>>, !.nev = @ + 1,
                      !.ops = Append(@, [op |-> "evaluate", who |-> w])]

SibNext == \/ \E s \in {"S1", "S2"} : \E k \in Kinds \cup {"cond"} : \E v \in 1..2 : SibDerive(s, k, v)
           \/ \E w \in Objs : \E u \in Units : SibAssign(w, u)
           \/ \E w \in Objs : SibEvaluate(w)

SibOwnParameters == (c.part = "siblings" /\ c.last # <<>>) => c.last[1] = c.last[2]
\* cells are never shared between objects that hold different versions of a unit
SibNoForeignCell ==
    c.part = "siblings" => \A w \in c.live : \A u \in Units : c.val[w][u] # 0 => c.heap[c.ref[w][u]] = c.val[w][u]
\* behaviours worth replaying: end in an evaluation, contain an assignment made on ANOTHER object than the one evaluated last
SibWorth ==
    /\ Len(c.ops) >= 3 /\ c.ops[Len(c.ops)].op = "evaluate"
    /\ \E i \in 1..(Len(c.ops) - 1) : c.ops[i].op = "assign" /\ c.ops[i].who # c.ops[Len(c.ops)].who
SibEmit ==
    (Emit /\ c.part = "siblings" /\ SibWorth) =>
        PrintT("@@CASE " \o ToJson([kind |-> "sibwalk4", callable |-> [u \in 1..2 |-> u \in c.callable], ops |-> c.ops]) \o " @@END")

\* ======================================================================================================================
\* Buffers
\* ======================================================================================================================
Entries == {"logd_kw", "logd_pos", "cond_logpdf", "cond_logd", "cond_pdf", "cond_cdf", "lik_kw", "lik_pos", "plain"}
\* plain: an unconditional object, only the evaluation point is a buffer; lik_*: the evaluation point is the data of a likelihood
\* built once, only the conditioning values are buffers
BufsOf(e) == CASE e = "plain" -> {"x"} [] e \in {"lik_kw", "lik_pos"} -> {"cond"} [] OTHER -> {"cond", "x"}
\* entry points at which the deviation keeps what it derived (keyed by the identity of the arguments)
MemoEntries == {"logd_kw", "logd_pos", "lik_kw", "lik_pos"}

BufInit == c \in { [part |-> "buffers", entry |-> e, buf |-> [b \in {"cond", "x"} |-> 1], memo |-> <<>>, last |-> <<>>, ops |-> <<>>,
                    nwr |-> 0, ncall |-> 0] : e \in Entries }
BufMore == Len(c.ops) < MaxOps
BufWrite(b) ==
    /\ BufMore /\ b \in BufsOf(c.entry) /\ c.nwr < 3
    /\ c' = [c EXCEPT !.buf[b] = Other(@), !.last = <<>>, !.nwr = @ + 1, !.ops = Append(@, [op |-> "write", buf |-> b])]
BufCall ==
    /\ BufMore /\ c.ncall < 3
    /\ LET used == IF DevIdentityMemo /\ c.memo # <<>> /\ c.entry \in MemoEntries THEN c.memo[1] ELSE c.buf
       IN c' = [c EXCEPT !.memo = <<used>>, !.last = <<used, c.buf>>, !.ncall = @ + 1,      \* (buf unchanged: a call does not modify its arguments)
                         !.ops = Append(@, [op |-> "call"])]
BufNext == BufCall \/ \E b \in {"cond", "x"} : BufWrite(b)

BufContentAtCallTime == (c.part = "buffers" /\ c.last # <<>>) => c.last[1] = c.last[2]
BufWorth ==
    /\ Len(c.ops) >= 3 /\ c.ops[Len(c.ops)].op = "call"
    /\ \E i \in 1..(Len(c.ops) - 1) : \E j \in (i + 1)..(Len(c.ops) - 1) : c.ops[i].op = "call" /\ c.ops[j].op = "write"
BufEmit ==
    (Emit /\ c.part = "buffers" /\ BufWorth) =>
        PrintT("@@CASE " \o ToJson([kind |-> "bufwalk", entry |-> c.entry, ops |-> c.ops]) \o " @@END")

\* ======================================================================================================================
Init == IF Part = "siblings" THEN SibInit ELSE BufInit
Next == IF Part = "siblings" THEN SibNext ELSE BufNext
=============================================================================
