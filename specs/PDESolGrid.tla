------------------------------ MODULE PDESolGrid ------------------------------
(***************************************************************************)
(* C18, strengthening V (round 10): the SOLUTION grid is an ordered         *)
(* sequence of nodes too.                                                   *)
(*                                                                         *)
(* PDE.tla (round 5) made grid_obs / time_obs sequences in the order the    *)
(* user chose; every solution grid stayed ascending.  grid_sol is "the grid *)
(* on which the solution is defined": node k of the grid belongs to entry k *)
(* of the solution vector, in whatever order the discretisation numbers its *)
(* nodes (descending coordinates, a permuted / renumbered mesh).  Observe   *)
(* is a statement about the FUNCTION these pairs (node, value) define:      *)
(*   observed[i] = the stored value of the solution node that coincides     *)
(*                 with grid_obs[i], else the interpolant of the pairs at   *)
(*                 grid_obs[i]                                              *)
(*   grid_obs = grid_sol node for node (same order): the solution itself.   *)
(* Oracle as in PDE.tla: data of a polynomial p of degree <= 2, so every    *)
(* polynomial-reproducing quadratic interpolant returns p(grid_obs[i]).     *)
(*                                                                         *)
(* ObsImpl is implementation shaped: the pairs are SORTED by coordinate,    *)
(* then the interval of x is located by counting the nodes <= x and the     *)
(* parabola through the three nodes around it is evaluated.  Named          *)
(* deviation DevAssumeSorted: the pairs are taken in the order given - the  *)
(* bounds test (x below the first / above the last node of the SEQUENCE)    *)
(* refuses, or the located window is not around x.  Must violate            *)
(* SolOrderExact.                                                           *)
(***************************************************************************)
EXTENDS Mat, FiniteSets, Json

CONSTANTS DevAssumeSorted, Emit

VARIABLES c
vars == <<c>>

\* reference nodes, ascending
Grids == [g3 |-> << Zero, One, R(2) >>,
          g4 |-> << Q(1, 2), One, R(2), R(4) >>,
          g5 |-> << Zero, Q(1, 2), One, R(2), R(3) >>]
\* node orders: position k of the solution vector holds reference node ord[k]
Orders(n) == CASE n = 3 -> [asc |-> <<1, 2, 3>>, desc |-> <<3, 2, 1>>, perm |-> <<3, 1, 2>>, swap |-> <<2, 1, 3>>]
               [] n = 4 -> [asc |-> <<1, 2, 3, 4>>, desc |-> <<4, 3, 2, 1>>, perm |-> <<2, 4, 1, 3>>, swap |-> <<1, 2, 4, 3>>]
               [] n = 5 -> [asc |-> <<1, 2, 3, 4, 5>>, desc |-> <<5, 4, 3, 2, 1>>, perm |-> <<3, 1, 5, 2, 4>>, swap |-> <<2, 1, 3, 4, 5>>]
OrdNames == {"asc", "desc", "perm", "swap"}
\* p(x) = a + b x + c x^2 (strictly monotone on the nodes: the nodal values are pairwise different)
Polys == [inc |-> <<1, 1, 1>>, dec |-> <<2, -7, 1>>]
PVal(pn, x) == LET q == Polys[pn] IN RAdd(R(q[1]), RAdd(RMul(R(q[2]), x), RMul(R(q[3]), RMul(x, x))))

Rev(s) == [i \in 1..Len(s) |-> s[Len(s) + 1 - i]]
Mid(X, i) == RDiv(RAdd(X[i], X[i + 1]), R(2))
\* observation grids, given the reference nodes X and the solution grid gs (a sequence)
ObsGrid(name, X, gs) ==
    LET n == Len(X)
    IN CASE name = "same" -> gs
         [] name = "asc"  -> X
         [] name = "rev"  -> Rev(gs)
         [] name = "sub"  -> << X[n], X[1] >>
         [] name = "mid"  -> [i \in 1..(n - 1) |-> Mid(X, i)]
         [] name = "midu" -> << Mid(X, n - 1), Mid(X, 1) >>
         [] name = "mix"  -> << Mid(X, 1), X[n], Mid(X, n - 1), X[1] >>
ObsNames == {"same", "asc", "rev", "sub", "mid", "midu", "mix"}

Configs == {[g |-> g, sord |-> o, poly |-> pn, gobs |-> go] : g \in DOMAIN Grids, o \in OrdNames, pn \in DOMAIN Polys, go \in ObsNames}
XOf(k)   == Grids[k.g]
GridSol(k) == LET X == XOf(k)  o == Orders(Len(X))[k.sord] IN F([i \in 1..Len(X) |-> X[o[i]]])
Sol(k)     == LET gs == GridSol(k) IN F([i \in 1..Len(gs) |-> PVal(k.poly, gs[i])])
GridObs(k) == ObsGrid(k.gobs, XOf(k), GridSol(k))

\* ---- the specification of Observe ----------------------------------------------------------------------------------
Lagrange3(xs, us, x) ==        \* the parabola through three pairs
    RSumSeq([a \in 1..3 |-> RMul(us[a], RProdSeq([b \in 1..3 |-> IF b = a THEN One ELSE RDiv(RSub(x, xs[b]), RSub(xs[a], xs[b]))]))])
IndexIn(gs, x) == CHOOSE q \in 1..Len(gs) : gs[q] = x
Coincides(gs, x) == \E q \in 1..Len(gs) : gs[q] = x
\* sorting the pairs: rank of node k = number of nodes below it
SortPerm(gs) == F([r \in 1..Len(gs) |-> CHOOSE q \in 1..Len(gs) : Cardinality({j \in 1..Len(gs) : RLt(gs[j], gs[q])}) = r - 1])
ObserveSpec(gs, u, go) ==
    IF go = gs THEN u
    ELSE F([i \in 1..Len(go) |->
            IF Coincides(gs, go[i]) THEN u[IndexIn(gs, go[i])]
            ELSE LET sp == SortPerm(gs) IN Lagrange3([a \in 1..3 |-> gs[sp[a]]], [a \in 1..3 |-> u[sp[a]]], go[i])])

\* implementation shaped: sort (unless the deviation), test the bounds, locate, evaluate the local parabola
Err == <<1, 0>>
ObsImpl(gs, u, go) ==
    IF go = gs THEN u
    ELSE LET n  == Len(gs)
             sp == IF DevAssumeSorted THEN [r \in 1..n |-> r] ELSE SortPerm(gs)
             xs == F([r \in 1..n |-> gs[sp[r]]])
             us == F([r \in 1..n |-> u[sp[r]]])
         IN F([i \in 1..Len(go) |->
                LET x == go[i]
                IN IF RLt(x, xs[1]) \/ RLt(xs[n], x) THEN Err                         \* "below / above the interpolation range"
                   ELSE LET cnt == Cardinality({j \in 1..n : RLe(xs[j], x)})          \* nodes up to x
                            lo  == IF cnt <= 1 THEN 1 ELSE IF cnt >= n - 1 THEN n - 2 ELSE cnt - 1
                        IN IF Cardinality({xs[lo], xs[lo + 1], xs[lo + 2]}) < 3 THEN Err
                           ELSE Lagrange3([a \in 1..3 |-> xs[lo + a - 1]], [a \in 1..3 |-> us[lo + a - 1]], x)])

Expected(k) == LET go == GridObs(k) IN F([i \in 1..Len(go) |-> PVal(k.poly, go[i])])

\* Observe returns p on the observation grid, in the order of the observation grid, whatever the node order of grid_sol
SolOrderExact == /\ ObserveSpec(GridSol(c), Sol(c), GridObs(c)) = Expected(c)
                 /\ ObsImpl(GridSol(c), Sol(c), GridObs(c)) = Expected(c)
\* ... and does not depend on the numbering of the solution nodes
SolOrderInvariant == LET ka == [c EXCEPT !.sord = "asc"]
                         go == GridObs(c)
                     IN c.gobs \notin {"same", "rev"} => ObsImpl(GridSol(c), Sol(c), go) = ObsImpl(GridSol(ka), Sol(ka), go)
\* the nodal values are pairwise different (a wrong order would be invisible otherwise)
OrderVisible == LET u == Sol(c) IN \A i, j \in 1..Len(u) : i # j => u[i] # u[j]
\* restriction (no interpolation) exactly when grid_obs is grid_sol node for node
Restriction == (GridObs(c) = GridSol(c)) <=> (c.gobs = "same" \/ (c.gobs = "asc" /\ c.sord = "asc"))

Ascending(s) == \A i \in 1..(Len(s) - 1) : RLt(s[i], s[i + 1])
Rec(k) == [kind |-> "solgrid", c |-> k, grid_sol |-> GridSol(k), sol |-> Sol(k), grid_obs |-> GridObs(k), expected |-> Expected(k),
           equal |-> (GridObs(k) = GridSol(k)), sol_asc |-> Ascending(GridSol(k)), obs_asc |-> Ascending(GridObs(k)),
           all_coincide |-> \A i \in 1..Len(GridObs(k)) : Coincides(GridSol(k), GridObs(k)[i])]
EmitInv == Emit => PrintT("@@CASE " \o ToJson(Rec(c)) \o " @@END")

Init == c \in Configs
Next == UNCHANGED c
Spec == Init /\ [][Next]_vars
=============================================================================
