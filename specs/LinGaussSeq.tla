----------------------------- MODULE LinGaussSeq -----------------------------
(***************************************************************************)
(* ONE Linear RTO / UGLA sampler object used in a SEQUENCE (property C06). *)
(*                                                                         *)
(* Module LinGauss states what ONE transition of a freshly built sampler   *)
(* is (an exact draw of the Gaussian posterior / of the local Gaussian).   *)
(* This module states the same for a sampler object that lives on: its     *)
(* target is replaced by ANOTHER posterior (as HybridGibbs does in every   *)
(* sweep: `sampler.target = conditional; sampler.reinitialize();           *)
(* sampler.set_state(previous state)`), and it keeps drawing.              *)
(*                                                                         *)
(* A configuration is a PAIR <<r1, r2>> of configurations of LinGauss      *)
(* (instantiated twice: A for p[1], B for p[2]) with the same number of    *)
(* unknowns.  Abstract state of the one sampler object:                    *)
(*    tg   index of the posterior currently installed as `target`          *)
(*    pre  index of the posterior the stacked operator M, the stacked      *)
(*         data b~ (and for UGLA the whitening, the prior location) were   *)
(*         PRECOMPUTED from                                                *)
(*    ri   has the sampler been (re)initialised since the target was set?  *)
(*    x    current state,   k   index of the last scripted perturbation    *)
(* Actions: Draw(q) - one transition, computed with the precomputed        *)
(* quantities `pre` from the current state x (operator RtoStep / UglaStep  *)
(* of LinGauss); SetTarget - the other posterior is assigned; Reinit -     *)
(* reinitialize() + set_state(): everything is precomputed again from the  *)
(* installed target, the current state is kept; Place (UGLA) - the chain   *)
(* is moved to the lattice point of the installed target.                  *)
(*                                                                         *)
(* Invariants                                                              *)
(*   SeqDrawIsTargetDraw  whenever the sampler was reinitialised after the *)
(*        last assignment of its target, a transition is the exact draw    *)
(*        mu_post + Lambda^-1 M^T e_k (UGLA: the mean of the documented    *)
(*        local Gaussian) of the posterior installed NOW - whatever was    *)
(*        installed and drawn before                                       *)
(*   SeqPairVisible       the two posteriors of a pair differ in mean AND  *)
(*        covariance (a stale operator or stale data cannot hide)          *)
(* Named deviation SeqDev = "ReinitKeepsOperator": reinitialisation keeps  *)
(* what was precomputed for the previous target; TLC must refute           *)
(* SeqDrawIsTargetDraw.                                                    *)
(* Drawing right after SetTarget WITHOUT reinitialising is not specified   *)
(* (the documentation of the setter only promises validation): the replay  *)
(* records which posterior such a draw follows as an observation.          *)
(* Emission: one case per pair with the complete cases of both members.    *)
(***************************************************************************)
EXTENDS Mat, FiniteSets, TLC, Json

CONSTANTS Part,       \* "rto" | "ugla"
          Thorough, Emit, Dev,      \* constants of LinGauss (Dev = "none")
          SeqDev      \* "none" | "ReinitKeepsOperator"

VARIABLES p,          \* <<r1, r2>>
          dd,         \* <<Derived(r1), Derived(r2)>>
          x, k,       \* current state, index of the last perturbation (-1: none since the last assignment / reinitialisation)
          tg, pre, ri,
          h           \* number of operations so far (bounds the behaviours)

vars == <<p, dd, x, k, tg, pre, ri, h>>

A == INSTANCE LinGauss WITH c <- p[1], d <- dd[1]
B == INSTANCE LinGauss WITH c <- p[2], d <- dd[2]

ASSUME Part \in {"rto", "ugla"} /\ SeqDev \in {"none", "ReinitKeepsOperator"}

MaxOps == IF Thorough THEN 6 ELSE 5

\* ---- pairs --------------------------------------------------------------------------------------------------------
PairKey(r1, r2) ==
    IF Part = "rto"
    THEN r1.i1 + (16 * r1.j) + (400 * r1.m1) + (1200 * r1.nl) + (31 * r1.i2) + (7 * r2.i1) + (113 * r2.j) + (2900 * r2.m1)
         + (9000 * r2.nl) + (57 * r2.i2)
    ELSE r1.i1 + (16 * r1.s) + (50 * r1.b) + (120 * r1.u) + (700 * r1.m) + (7 * r2.i1) + (113 * r2.s) + (290 * r2.b) + (900 * r2.u)
         + (3100 * r2.m) + (IF r1.lk = "zero" THEN 0 ELSE IF r1.lk = "scalar" THEN 13 ELSE 29)
         + (IF r2.lk = "zero" THEN 0 ELSE IF r2.lk = "scalar" THEN 17 ELSE 41)
\* pairs are formed from two thinned subsets of the configurations (the full product has 10^7 elements in the wide instance)
Key1(r) == IF Part = "rto" THEN r.i1 + (16 * r.j) + (400 * r.m1) + (1200 * r.nl) + (31 * r.i2) + (7 * r.av)
           ELSE r.i1 + (16 * r.s) + (50 * r.b) + (120 * r.u) + (700 * r.m) + (3 * r.wv) + (IF r.lk = "zero" THEN 0 ELSE IF r.lk = "scalar" THEN 13 ELSE 29)
T1   == IF Part = "rto" THEN (IF Thorough THEN 40 ELSE 5) ELSE (IF Thorough THEN 25 ELSE 5)
Thin == IF Part = "rto" THEN (IF Thorough THEN 23 ELSE 31) ELSE (IF Thorough THEN 37 ELSE 61)
Sub(res) == { r \in A!Configs : Key1(r) % T1 = res }
\* UGLA: the point at which the weights are evaluated (x_k or x_k - location, variant wv) is the same in both members
SameVariant(r1, r2) == Part = "ugla" => ((r1.lk = "zero" \/ r2.lk = "zero" \/ r1.wv = r2.wv) /\ (r1.lk # "zero" \/ r2.lk # "zero" \/ r1.wv = 0))
Visible(r1, r2) == LET d1 == A!Derived(r1)  d2 == A!Derived(r2) IN d1.mu # d2.mu /\ d1.LamInv # d2.LamInv
Pairs == { q \in Sub(0) \X Sub(1) :
             /\ q[1] # q[2] /\ q[1].n = q[2].n
             /\ PairKey(q[1], q[2]) % Thin = 0
             /\ SameVariant(q[1], q[2])
             /\ Visible(q[1], q[2]) }

Init == /\ p \in Pairs
        /\ dd = <<A!Derived(p[1]), A!Derived(p[2])>>
        /\ tg = 1 /\ pre = 1 /\ ri = TRUE /\ k = -1 /\ h = 0
        /\ x \in (IF Part = "rto" THEN {VR(A!IZeroV(p[1].n)), VR([i \in 1..p[1].n |-> (3 * i) - 5])} ELSE {VR(dd[1].xk)})

\* ---- actions ------------------------------------------------------------------------------------------------------
Draw == /\ h < MaxOps
        /\ IF Part = "rto"
           THEN \E q \in 0..dd[pre].N : x' = A!RtoStep(dd[pre], x, q) /\ k' = q
           ELSE /\ x \in {VR(dd[tg].xk), VR(dd[pre].xk)}          \* one transition from the lattice point (the next state is off the lattice)
                /\ dd[pre].ok
                /\ x' = A!UglaStep(dd[pre]) /\ k' = 0
        /\ h' = h + 1
        /\ UNCHANGED <<p, dd, tg, pre, ri>>
SetTarget == /\ h < MaxOps
             /\ tg' = 3 - tg /\ ri' = FALSE /\ k' = -1 /\ h' = h + 1
             /\ UNCHANGED <<p, dd, x, pre>>
Reinit == /\ h < MaxOps /\ ~ri
          /\ ri' = TRUE /\ k' = -1 /\ h' = h + 1
          /\ pre' = IF SeqDev = "ReinitKeepsOperator" THEN pre ELSE tg
          /\ UNCHANGED <<p, dd, x, tg>>
Place == /\ Part = "ugla" /\ h < MaxOps /\ x # VR(dd[tg].xk)
         /\ x' = VR(dd[tg].xk) /\ k' = -1 /\ h' = h + 1
         /\ UNCHANGED <<p, dd, tg, pre, ri>>
Next == Draw \/ SetTarget \/ Reinit \/ Place
Spec == Init /\ [][Next]_vars

\* ---- invariants ---------------------------------------------------------------------------------------------------
SeqDrawIsTargetDraw ==
    (k >= 0 /\ ri) =>
       LET t == dd[tg]
       IN IF Part = "rto"
          THEN x = (IF k = 0 THEN t.mu ELSE A!VAddS(t.mu, A!QV(A!ICol(A!IMM(t.adj, A!IT(t.M)), k), t.det)))
          ELSE x = t.mu
SeqPairVisible == dd[1].mu # dd[2].mu /\ dd[1].LamInv # dd[2].LamInv /\ p[1].n = p[2].n
SeqInSync == ri => pre = tg            \* holds in the intended design only (violated under the deviation)

SeqCase == [kind |-> (IF Part = "rto" THEN "rtoseq" ELSE "uglaseq"),
            first  |-> (IF Part = "rto" THEN A!RtoCase ELSE A!UglaCase),
            second |-> (IF Part = "rto" THEN B!RtoCase ELSE B!UglaCase)]
SeqEmit == (Emit /\ h = 0 /\ x = (IF Part = "rto" THEN VR(A!IZeroV(p[1].n)) ELSE VR(dd[1].xk))) =>
              PrintT("@@CASE " \o ToJson(SeqCase) \o " @@END")
=============================================================================
