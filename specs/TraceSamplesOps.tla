--------------------------- MODULE TraceSamplesOps ---------------------------
(***************************************************************************)
(* Trace validation for SamplesOps (property C19, code -> spec).           *)
(* A trace file is a JSON array of EVENTS, one per outermost call of        *)
(* Samples.burnthin / .funvals / .vector / .parameters / .compute_rhat      *)
(* observed in a real execution (the repository's own tests, seeded random  *)
(* drivers):                                                                *)
(*   [op, b, t, err,                                                        *)
(*    pre  |-> [n, par, vec, fun1d],   the object the call was made on      *)
(*    post |-> [n, par, vec, samegeom],                                     *)
(*    cols |-> positions (0-based) of the result's columns in pre,          *)
(*    frame |-> [recv, nl_pre, nl_post, ids, args]]  deep fingerprints:     *)
(*       recv - receiver unchanged by the call; for compute_rhat the length *)
(*       of the caller's list of chains before / after, ids - same objects  *)
(*       in the same order, args - their contents unchanged]                *)
(* Every event must be a transition of SamplesOps: Burnthin(b, t) in the    *)
(* closed form that TLC checks against the element-wise slice on the        *)
(* bounded model (StepIndices), flags and geometry preserved; conversions   *)
(* follow the flag automaton and keep the number of samples.  Every event,   *)
(* refused or not, satisfies the step relation of the action property Frame *)
(* of SamplesOps (FrameStep: no existing object altered, the caller's list  *)
(* altered by no library action).                                           *)
(* The event relation does not mention the data layout of the stored array  *)
(* (dimension lay of SamplesOps: number type, memory order, contiguity,     *)
(* write protection): the seeded driver stores a third of its chains in a   *)
(* seeded layout and every such event must satisfy the SAME relation.       *)
(***************************************************************************)
EXTENDS Integers, Sequences, TLC, Json, IOUtils

Trace == JsonDeserialize(IOEnv.TRACE_FILE)

VARIABLE i
vars == <<i>>

Selected(n, b, t) == [k \in 1..(((n - b) + (t - 1)) \div t) |-> b + (k - 1) * t]

IsBurnthin(e) ==
    IF e.b >= e.pre.n
    THEN e.err
    ELSE /\ ~e.err
         /\ e.cols = Selected(e.pre.n, e.b, e.t)                       \* Indices
         /\ e.post.n = Len(e.cols)
         /\ e.post.par = e.pre.par /\ e.post.vec = e.pre.vec /\ e.post.samegeom   \* FlagsPreserved

IsFunvals(e) ==
    ~e.err => /\ e.post.n = e.pre.n /\ e.post.samegeom
              /\ e.post.par = FALSE
              /\ e.post.vec = (IF ~e.pre.par /\ ~e.pre.vec THEN FALSE ELSE e.pre.fun1d)

IsVector(e) ==
    ~e.err => /\ e.post.n = e.pre.n /\ e.post.samegeom
              /\ e.post.par = e.pre.par /\ e.post.vec = TRUE

IsParameters(e) ==
    ~e.err => /\ e.post.n = e.pre.n /\ e.post.samegeom
              /\ e.post.par = TRUE /\ e.post.vec = TRUE

\* FrameStep of SamplesOps on the recorded fingerprints
Framed(e) == /\ e.frame.recv                              \* fo'[r] = fo[r]
             /\ e.frame.nl_post = e.frame.nl_pre /\ e.frame.ids   \* fl' = fl
             /\ e.frame.args                              \* \A k : fo'[fl[k]] = fo[fl[k]]

IsEvent(e) == /\ Framed(e)
              /\ CASE e.op = "burnthin"   -> IsBurnthin(e)
                   [] e.op = "funvals"    -> IsFunvals(e)
                   [] e.op = "vector"     -> IsVector(e)
                   [] e.op = "parameters" -> IsParameters(e)
                   [] e.op = "rhat"       -> TRUE            \* values: conformance replay (FRhat)

Init == i = 1
Next == i <= Len(Trace) /\ i' = i + 1
\* the event about to be consumed is a transition of the specification
Conforms == i <= Len(Trace) => IsEvent(Trace[i])
=============================================================================
