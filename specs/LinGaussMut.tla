----------------------------- MODULE LinGaussMut -----------------------------
(***************************************************************************)
(* ONE posterior OBJECT whose NESTED objects are updated through their     *)
(* public setters while a Linear RTO / UGLA sampler holds it as target     *)
(* (property C06, round 6).                                                *)
(*                                                                         *)
(* LinGaussSeq replaces the target of a sampler by ANOTHER posterior        *)
(* object.  Here the target stays the SAME object; what changes is what it   *)
(* refers to:  target.prior.mean = ..,  target.prior.<cov|prec|..> = ..,    *)
(* target.likelihood.distribution.<cov|..> = ..,  target.likelihood.data =  *)
(* .. (UGLA: target.prior.location / .scale), followed by                   *)
(* sampler.reinitialize() (experimental interface; legacy: a new sampler    *)
(* for the same posterior object).  The statement of C06 is about "the      *)
(* posterior": a transition made after the (re)initialisation is the exact  *)
(* draw of the posterior the target describes NOW.                          *)
(*                                                                         *)
(* Module LinGauss, part reassign (C15), already has every input of a       *)
(* linear-Gaussian problem in two VERSIONS (same sizes, same input forms,   *)
(* other values) and the closed forms of every mixed assignment (RePost).   *)
(* This module EXTENDS LinGauss (Part = "reassign" for Linear RTO, "ugla"   *)
(* for UGLA) and puts a sampler on top.  Abstract state x of the pair       *)
(* (target object, sampler object):                                         *)
(*    x.a   version currently ASSIGNED to each field of the target          *)
(*    x.p   version of each field the sampler PRECOMPUTED its stacked       *)
(*          operator / stacked data (UGLA: prior location, scale) from      *)
(*    x.ri  has the sampler been (re)initialised since the last update?     *)
(* k, z: index of the scripted perturbation and end point of the last       *)
(* transition.  Actions: MutSet(f) (public setter of field f, toggles the   *)
(* version), MutReinit (everything is precomputed again from the target),   *)
(* MutDraw (one transition computed from the PRECOMPUTED versions with      *)
(* operator RtoStep / UglaStep of LinGauss; only after (re)initialisation:  *)
(* a draw between an update and the reinitialisation is not specified, the  *)
(* replay records what it follows as an observation).                       *)
(*                                                                         *)
(* Invariants                                                              *)
(*   MutDrawIsCurrentDraw  every transition is mu_post + Lambda^-1 M^T e_k  *)
(*        (UGLA: the mean of the documented local Gaussian, and the normal  *)
(*        matrix of the stacked problem is its precision) of the values     *)
(*        ASSIGNED NOW                                                     *)
(*   MutVisible   toggling any single field changes (mean, covariance) of   *)
(*        the posterior - a stale field cannot hide                         *)
(*   MutInSync    reinitialised => precomputed = assigned (intended design) *)
(*   ReReference  (of LinGauss) the versions are what they claim to be      *)
(* Named deviation MutDev = "ReinitSkipsSameTarget": reinitialisation keeps *)
(* what was precomputed when the target OBJECT is the one it was            *)
(* precomputed for (identity instead of content); TLC must refute           *)
(* MutDrawIsCurrentDraw.                                                    *)
(* Emission: one case per (configuration, assignment), at the in-sync state. *)
(***************************************************************************)
EXTENDS LinGauss

CONSTANTS MutDev      \* "none" | "ReinitSkipsSameTarget"

VARIABLES z           \* end point of the last transition (<<>>: none since the last operation)

mvars == <<c, d, x, k, z>>

ASSUME Part \in {"reassign", "ugla"} /\ MutDev \in {"none", "ReinitSkipsSameTarget"} /\ Dev = "none"

IsRto == Part = "reassign"
MutFields == IF IsRto THEN {"mean", "prior", "noise", "data"} ELSE {"loc", "scale"}
AllOne == [f \in MutFields |-> 1]

\* ---- configurations -----------------------------------------------------------------------------------------------
NextLk(lk) == CASE lk = "zero" -> "scalar" [] lk = "scalar" -> "vec" [] OTHER -> "zero"
\* UGLA: the configuration with versions <<vl, vs>> of location kind and scale (everything else as in the base configuration)
UCfg(r, a) == [r EXCEPT !.lk = IF a.loc = 1 THEN r.lk ELSE NextLk(r.lk), !.s = IF a.scale = 1 THEN r.s ELSE (r.s % 3) + 1]
\* weights evaluated at x_k (variant wv = 0: the lattice condition then does not depend on the location)
MutSelUgla(r) == /\ r.wv = 0 /\ r.n = 2
                 /\ (IF Thorough THEN (r.i1 + r.u + r.s) % 3 = 0
                     ELSE \/ ((r.i1 + r.u) % 2 = 0 /\ r.b = 1 /\ (r.i1 + r.u + r.s + r.m) % 5 = 0)
                          \/ (r.b = 2 /\ r.u = 1 /\ r.lk = "vec" /\ r.s = 2 /\ r.m = 3))
MutSelRto(r) ==
    Thorough \/ (r.m = 2)
             \/ (r.j > 16 /\ r.i1 \in {1, 14})
             \/ (r.j <= 16 /\ ((r.i1 = r.j /\ r.i1 % 2 = 1) \/ (r.i1 + r.j = 17 /\ r.i1 % 4 = 0)))
MutConfigs == IF IsRto THEN {r \in Configs : MutSelRto(r)}
              ELSE {r \in {q \in UglaConfigs : q.wv = 0 /\ q.n = 2 /\ UglaLattice(q) /\ (GForm(q.i1).kind = "full" => q.m >= 2)} : MutSelUgla(r)}

Assignments == [MutFields -> {1, 2}]
MutDerived(r) == IF IsRto THEN ReDerived(r)
                 ELSE [tab |-> [a \in Assignments |-> UglaDerived(UCfg(r, a))]]

\* ---- the stacked least-squares problem of Linear RTO for the versions a (as the code forms it) ------------------------
MutStack(dd, a) ==
    LET Le   == dd.ver[a.noise].Le
        Lp   == dd.ver[a.prior].Lp
        M    == IMM(Le, dd.A) \o Lp
        bt   == IMV(Le, dd.ver[a.data].y) \o IMV(Lp, dd.ver[a.mean].mu0)
        Madj == IT(M)
        MtM  == IMM(Madj, M)
    IN [n |-> dd.n, N |-> Len(M), M |-> M, Madj |-> Madj, bt |-> bt, MtM |-> MtM, detN |-> IDet(MtM), adjN |-> IAdj(MtM)]
MutPost(dd, a) == RePost(dd, a.mean, a.prior, a.noise, a.data)
MutStarts(n) == {VR(IZeroV(n)), VR([i \in 1..n |-> (3 * i) - 5])}

\* ---- state machine ------------------------------------------------------------------------------------------------
\* (x also carries the four fields of part reassign so that ReReference / ReCase of LinGauss read the assigned versions)
MkState(a, p, ri) == IF IsRto THEN [a |-> a, p |-> p, ri |-> ri, mean |-> a.mean, prior |-> a.prior, noise |-> a.noise, data |-> a.data]
                     ELSE [a |-> a, p |-> p, ri |-> ri]

MutInit == /\ c \in MutConfigs
           /\ d = MutDerived(c)
           /\ x = MkState(AllOne, AllOne, TRUE)
           /\ k = -1 /\ z = <<>>

MutSet == \E f \in MutFields :
            /\ x' = MkState([x.a EXCEPT ![f] = 3 - @], x.p, FALSE)
            /\ k' = -1 /\ z' = <<>>
            /\ UNCHANGED <<c, d>>
MutReinit == /\ ~x.ri
             /\ x' = MkState(x.a, IF MutDev = "ReinitSkipsSameTarget" THEN x.p ELSE x.a, TRUE)
             /\ k' = -1 /\ z' = <<>>
             /\ UNCHANGED <<c, d>>
MutDraw == /\ x.ri /\ k = -1
           /\ IF IsRto
              THEN \E U \in {MutStack(d, x.p)} : \E q \in 0..U.N : \E st \in MutStarts(d.n) :
                       z' = RtoStep(U, st, q) /\ k' = q
              ELSE /\ d.tab[x.p].ok
                   /\ z' = UglaStep(d.tab[x.p]) /\ k' = 0
           /\ UNCHANGED <<c, d, x>>
MutNext == MutSet \/ MutReinit \/ MutDraw
MutSpec == MutInit /\ [][MutNext]_mvars

\* ---- invariants ---------------------------------------------------------------------------------------------------
MutDrawIsCurrentDraw ==
    (k >= 0) =>
       IF IsRto
       THEN LET t == MutPost(d, x.a)  M == MutStack(d, x.a).M
            IN z = (IF k = 0 THEN t.mu ELSE VAddS(t.mu, QV(ICol(IMM(t.adj, IT(M)), k), t.det)))
       ELSE LET t == d.tab[x.a]
            IN /\ z = t.mu                              \* offset = mean of the documented local Gaussian of the values assigned now
               /\ d.tab[x.p].MtM = t.Lam                \* covariance of the draw = its covariance
\* toggling one field changes the posterior (mean / data / location: its mean; prior / noise / scale: its covariance)
Toggled(a, f) == [a EXCEPT ![f] = 3 - @]
MutVisible ==
    \A f \in MutFields :
       IF IsRto
       THEN LET s == MutPost(d, x.a)  t == MutPost(d, Toggled(x.a, f))
            IN (s.mu # t.mu \/ s.LamInv # t.LamInv) /\ (f \in {"prior", "noise"} => s.LamInv # t.LamInv)
       ELSE LET s == d.tab[x.a]  t == d.tab[Toggled(x.a, f)]
            IN s.ok /\ t.ok /\ (s.mu # t.mu \/ s.LamInv # t.LamInv) /\ (f = "scale" => s.LamInv # t.LamInv)
MutInSync == x.ri => x.p = x.a
\* the normal equations of the stacked problem built from the assigned versions are those of the reference (information form)
MutNormalEquations ==
    IsRto => LET U == MutStack(d, x.a)  t == MutPost(d, x.a)
             IN U.MtM = t.Lam /\ IMV(U.Madj, U.bt) = t.rhs /\ IPosDef(t.Lam)

\* ---- emission -----------------------------------------------------------------------------------------------------
UMutCase(r, ud) ==
    [kind |-> "uglamut", n |-> r.n, m |-> r.m, i1 |-> r.i1, lk |-> r.lk, wv |-> r.wv, u |-> r.u, si |-> r.s, bi |-> r.b,
     A |-> ud.A, y |-> ud.y, Ln |-> ud.L1,
     noise |-> LET gi == GForm(r.i1) IN [kind |-> gi.kind, form |-> gi.form, shape |-> ParamShape(gi.kind),
                                         param_q |-> GaussParam(gi.kind, gi.form, r.m, 1)],
     D |-> ud.D, xk |-> ud.xk, loc |-> ud.loc, beta_q |-> ud.beta, scale_q |-> ud.s, w_q |-> ud.w,
     Lam_q |-> ud.Lam, LamInv_q |-> ud.LamInv, mu_q |-> ud.mu, Ne |-> ud.Ne]
MutCase == IF IsRto
           THEN [kind |-> "rtomut", base |-> [m |-> c.m, na |-> c.na, i1 |-> c.i1, j |-> c.j], sel |-> x.a, state |-> ReCase]
           ELSE [kind |-> "uglamut", base |-> [m |-> c.m, i1 |-> c.i1, lk |-> c.lk, s |-> c.s, b |-> c.b, u |-> c.u], sel |-> x.a,
                 state |-> UMutCase(UCfg(c, x.a), d.tab[x.a])]
MutEmit == (Emit /\ x.ri /\ k = -1 /\ x.p = x.a) => PrintT("@@CASE " \o ToJson(MutCase) \o " @@END")
=============================================================================
