-------------------------- MODULE ModelGeomConstruct --------------------------
(***************************************************************************)
(* Property C07, round 9: the CONSTRUCTION of a linear model is a step of   *)
(* its own (part CON).                                                      *)
(*                                                                         *)
(* "For every linear model the library constructs OR ACCEPTS ... for every  *)
(* domain and range geometry the model is given."  Every other part of     *)
(* ModelGeom starts from a model that exists; a constructor that REFUSES a  *)
(* well-formed configuration was outside the state space (and crashed the   *)
(* replay).  Here the state is (configuration, st, out) and the only action *)
(* is Construct.                                                            *)
(*                                                                         *)
(* WELL-FORMED (LinearModel: "forward: 2D ndarray or callable"; the matrix  *)
(* acts on FUNCTION VALUES - forward converts the input to function values  *)
(* with the domain geometry, applies the operator, converts the result with *)
(* the range geometry's fun2par; Abel1D ships exactly this with KL / Step / *)
(* CustomKL fields):                                                        *)
(*    matrix-backed:   rows = FunDim(range), cols = FunDim(domain), the      *)
(*                     function values are vectors                          *)
(*    function-backed: always (nothing can be checked at construction)      *)
(* par_dim may differ from fun_dim on either side (StepExpansion with fewer *)
(* steps than nodes, truncated KL expansions, CustomKL).                    *)
(* A matrix shaped like the PARAMETER dimensions while par_dim # fun_dim is *)
(* ill-formed; what the constructor does with it is not specified           *)
(* (out = "unspecified": the replay records it).                            *)
(*                                                                         *)
(* Invariant   WellFormedAccepted  built /\ WellFormed => out = "accepted"   *)
(* Deviation   ShapeCheckedAgainstParDim  (the constructor compares the      *)
(*             matrix shape with range_dim x domain_dim = PARAMETER          *)
(*             dimensions) - refuted by TLC.                                 *)
(* ConCoverage (ASSUME): for every model kind there are well-formed          *)
(* configurations with par_dim # fun_dim in the DOMAIN and in the RANGE.     *)
(***************************************************************************)
EXTENDS ModelGeom

CONSTANTS ConWide      \* TRUE: both orientations (6 -> 4 and 4 -> 6)

ParDim(g) == g.k
FunDim(g) == g.n

\* CustomKL: par2fun only (trunc_term modes on n nodes), so a DOMAIN geometry only
CustomKL(n) == Geo("customkl", n, LinK(n), 1, n, "", <<>>)
ConDom(n) == LinGeoms(n) \cup NonLinProj(n) \cup {CustomKL(n)}
ConRng(n) == LinGeoms(n)

\* the test problem Abel1D(dim = 8, field_type, KL_map): dense 8 x 8 matrix on function values, range Continuous1D(8)
AbelFields == {"None", "KL", "Step", "CustomKL"}
AbelDom(field, mapped) ==
    LET base == CASE field = "None"     -> Geo("cont1d", 8, 8, 1, 8, "", <<>>)
                  [] field = "KL"       -> Geo("kl", 8, 3, 1, 8, "", <<>>)
                  [] field = "Step"     -> Geo("step", 8, 4, 1, 8, "mean", <<1, 1, 2, 2, 3, 3, 4, 4>>)
                  [] field = "CustomKL" -> Geo("customkl", 8, 3, 1, 8, "", <<>>)
    IN IF mapped THEN [base EXCEPT !.proj = "mapped"] ELSE base        \* MappedGeometry around it: dimensions unchanged

\* shape = "fun": the matrix has the function dimensions; "par": the parameter dimensions
ConConfigs ==
    LET one(nd, nr) == { [part |-> "CON", mk |-> mk, dg |-> dg, rg |-> rg, fi |-> 1, shape |-> sh, given |-> "objects", st |-> "new", out |-> ""] :
                           mk \in LinKinds, dg \in ConDom(nd), rg \in ConRng(nr), sh \in {"fun", "par"} }
        inferred(nd, nr) == { [part |-> "CON", mk |-> mk, dg |-> Geo("default1d", nd, nd, 1, nd, "", <<>>), rg |-> Geo("default1d", nr, nr, 1, nr, "", <<>>),
                               fi |-> 1, shape |-> "fun", given |-> "inferred", st |-> "new", out |-> ""] : mk \in {"dense", "sparse"} }
        abel == { [part |-> "CON", mk |-> "abel", dg |-> AbelDom(f, m), rg |-> Geo("cont1d", 8, 8, 1, 8, "", <<>>), fi |-> 1, shape |-> "fun",
                   given |-> f, st |-> "new", out |-> ""] : f \in AbelFields, m \in BOOLEAN }
    IN one(6, 4) \cup inferred(6, 4) \cup abel \cup (IF ConWide THEN one(4, 6) \cup inferred(4, 6) ELSE {})
IsMatrix(k) == k.mk \in {"dense", "sparse", "abel"}
\* kept: the matrix-shaped configurations where the two shapes differ, or the function-shaped one
ConKept(k) == /\ (IsMatrix(k) => (VecFun(k.dg) /\ VecFun(k.rg)))
              /\ (k.shape = "par" => (IsMatrix(k) /\ (ParDim(k.dg) # FunDim(k.dg) \/ ParDim(k.rg) # FunDim(k.rg))))

MatShape(k) == IF k.shape = "fun" THEN <<FunDim(k.rg), FunDim(k.dg)>> ELSE <<ParDim(k.rg), ParDim(k.dg)>>
WellFormed(k) == IsMatrix(k) => MatShape(k) = <<FunDim(k.rg), FunDim(k.dg)>>
Outcome(k) == IF "ShapeCheckedAgainstParDim" \in Dev /\ IsMatrix(k)
              THEN (IF MatShape(k) = <<ParDim(k.rg), ParDim(k.dg)>> THEN "accepted" ELSE "refused")
              ELSE IF WellFormed(k) THEN "accepted" ELSE "unspecified"

ConInit == c \in {k \in ConConfigs : ConKept(k)}
Construct == /\ c.st = "new"
             /\ c' = [c EXCEPT !.st = "built", !.out = Outcome(c)]
ConNext == Construct

WellFormedAccepted == (c.st = "built" /\ WellFormed(c)) => c.out = "accepted"
ConEmit == (Emit /\ c.st = "built") =>
              PrintT("@@CASE " \o ToJson([kind |-> "con", mk |-> c.mk, dg |-> c.dg, rg |-> c.rg, fi |-> c.fi, shape |-> c.shape, given |-> c.given,
                                           wf |-> WellFormed(c), out |-> c.out, rows |-> MatShape(c)[1], cols |-> MatShape(c)[2],
                                           F |-> CoreF(c.fi, MatShape(c)[1], MatShape(c)[2])]) \o " @@END")

\* coverage of the class (vacuity guard, checked when the module is loaded)
ConCoverage == \A mk \in LinKinds :
                 /\ \E k \in ConConfigs : ConKept(k) /\ WellFormed(k) /\ k.mk = mk /\ ParDim(k.dg) # FunDim(k.dg) /\ ParDim(k.rg) = FunDim(k.rg)
                 /\ \E k \in ConConfigs : ConKept(k) /\ WellFormed(k) /\ k.mk = mk /\ ParDim(k.rg) # FunDim(k.rg) /\ ParDim(k.dg) = FunDim(k.dg)
                 /\ \E k \in ConConfigs : ConKept(k) /\ WellFormed(k) /\ k.mk = mk /\ k.dg.kind = "customkl"
ASSUME ConCoverage
=============================================================================
