---------------------------- MODULE SamplerLife ----------------------------
(***************************************************************************)
(* Life cycle of a sampler and of its recorded chain (property C14).       *)
(*                                                                         *)
(* The chain of an UNINTERRUPTED run from a given random stream is the     *)
(* sequence of abstract states S(0), S(1), S(2), ... ; S(k) is "the state  *)
(* after k transitions" (chain point, cached evaluations, tuned            *)
(* parameters, stream position).  The specification only manipulates the   *)
(* indices k; the conformance harness realises S(k) by running the real    *)
(* sampler once without interruption and recording every state.            *)
(*                                                                         *)
(* Stateful interface (cuqi.experimental.mcmc, both Gibbs samplers):       *)
(*   Construct . [Warmup(W)] . ( Sample(n) | Save | FreshLoad | Reinit )*  *)
(* Sample(n)/Warmup(n) are n repetitions of the inner step                 *)
(*   Transition . (Tune?) . Append . Callback                              *)
(* so TLC sees - and checks the invariants in - every intermediate state.  *)
(*                                                                         *)
(* Stateless interface (cuqi.sampler): LegacySample(N, Nb) builds the      *)
(* chain S(0) .. S(N+Nb-1) with S(0) the initial point and returns the     *)
(* last N states; every call starts again from the initial point.          *)
(*                                                                         *)
(* Named deviations (DESIGN 2.7), all FALSE in the deciding configuration: *)
(*   DevLoadRestarts      - loading a checkpoint restarts from S(0)        *)
(*   DevCallbackBeforeAppend - callback index computed before the append   *)
(*   DevLegacyDropsInitial   - stateless chain begins with S(1)            *)
(***************************************************************************)
EXTENDS Integers, Sequences, SequencesExt, TLC, Json

CONSTANTS Sizes,        \* set of n for Sample(n)
          Warm,         \* set of warm-up lengths W (0 = no warm-up)
          MaxOps,       \* number of operations after the optional warm-up
          LegN, LegNb,  \* ranges of N and Nb for the stateless interface
          Emit,
          Strict,       \* TRUE: warm-up only as the first operation, Reinit only on an instance that was not loaded (reference-chain semantics
                        \* of the behaviour replay); FALSE: any order (trace validation of arbitrary recorded runs)
          DevLoadRestarts, DevCallbackBeforeAppend, DevLegacyDropsInitial

VARIABLES iface,   \* "stateful" | "legacy"
          k,       \* index of the live sampler's current state in the uninterrupted chain
          start,   \* k at which the live instance began recording (0, or the checkpoint position)
          hist,    \* recorded chain of the live instance: sequence of S-indices
          cb,      \* callback log of the live instance: sequence of <<S-index, chain index>>
          inst,    \* number of the live instance (a fresh instance is constructed by FreshLoad)
          warm,    \* warm-up length executed (0 if none)
          ckpt,    \* -1, or the k saved by the last Save
          todo,    \* remaining inner steps of the Sample/Warmup in progress
          cur,     \* operation in progress: <<"idle">>, <<"sample", n>>, <<"warmup", n>>
          prog,    \* history variable: completed operations with the state predicted after each
          ret      \* stateless interface: chain returned by the last call

vars == <<iface, k, start, hist, cb, inst, warm, ckpt, todo, cur, prog, ret>>

Idle == todo = 0 /\ cur[1] = "idle"
Ops  == Len(SelectSeq(prog, LAMBDA e : e.op # "warmup"))

RECURSIVE SumN(_)
SumN(s) == IF s = <<>> THEN 0 ELSE Head(s).n + SumN(Tail(s))

Init == /\ iface \in {"stateful", "legacy"}
        /\ k = 0 /\ start = 0 /\ hist = <<>> /\ cb = <<>> /\ inst = 1 /\ warm = 0 /\ ckpt = -1
        /\ todo = 0 /\ cur = <<"idle">> /\ prog = <<>> /\ ret = <<>>

\* ------------------------------ stateful interface ------------------------------
BeginWarmup(n) ==
    /\ iface = "stateful" /\ Idle /\ n \in Warm
    /\ (Strict => prog = <<>> /\ n > 0)
    /\ todo' = n /\ warm' = warm + n
    /\ IF n = 0 THEN /\ prog' = Append(prog, [op |-> "warmup", n |-> 0, k |-> k, start |-> start, hist |-> hist,
                                                ncb |-> Len(cb), inst |-> inst, ckpt |-> ckpt])
                     /\ cur' = <<"idle">>
                ELSE /\ cur' = <<"warmup", n>> /\ UNCHANGED prog
    /\ UNCHANGED <<iface, k, start, hist, cb, inst, ckpt, ret>>

BeginSample(n) ==
    /\ iface = "stateful" /\ Idle /\ Ops < MaxOps /\ n \in Sizes
    /\ todo' = n
    /\ IF n = 0 THEN /\ prog' = Append(prog, [op |-> "sample", n |-> 0, k |-> k, start |-> start, hist |-> hist,
                                                ncb |-> Len(cb), inst |-> inst, ckpt |-> ckpt])
                     /\ cur' = <<"idle">>
                ELSE /\ cur' = <<"sample", n>> /\ UNCHANGED prog
    /\ UNCHANGED <<iface, k, start, hist, cb, inst, warm, ckpt, ret>>

\* one inner step: Transition . Append . Callback
Step ==
    /\ iface = "stateful" /\ todo > 0
    /\ k' = k + 1
    /\ hist' = Append(hist, k + 1)
    /\ cb' = Append(cb, <<k + 1, IF DevCallbackBeforeAppend THEN Len(hist) - 1 ELSE Len(hist)>>)
    /\ todo' = todo - 1
    /\ IF todo = 1 THEN /\ cur' = <<"idle">>
                        /\ prog' = Append(prog, [op |-> cur[1], n |-> cur[2], k |-> k + 1, start |-> start,
                                                 hist |-> hist', ncb |-> Len(cb'), inst |-> inst, ckpt |-> ckpt])
                   ELSE UNCHANGED <<cur, prog>>
    /\ UNCHANGED <<iface, start, inst, warm, ckpt, ret>>

Save ==
    /\ iface = "stateful" /\ Idle /\ Ops < MaxOps
    /\ ckpt' = k
    /\ prog' = Append(prog, [op |-> "save", n |-> 0, k |-> k, start |-> start, hist |-> hist, ncb |-> Len(cb),
                             inst |-> inst, ckpt |-> k])
    /\ UNCHANGED <<iface, k, start, hist, cb, inst, warm, todo, cur, ret>>

\* construct a fresh sampler of the same configuration, load the checkpoint, restore the stream position
FreshLoad ==
    /\ iface = "stateful" /\ Idle /\ Ops < MaxOps /\ ckpt >= 0
    /\ k' = IF DevLoadRestarts THEN 0 ELSE ckpt
    /\ start' = ckpt
    /\ hist' = <<>> /\ cb' = <<>> /\ inst' = inst + 1
    /\ prog' = Append(prog, [op |-> "freshload", n |-> 0, k |-> k', start |-> ckpt, hist |-> <<>>, ncb |-> 0,
                             inst |-> inst + 1, ckpt |-> ckpt])
    /\ UNCHANGED <<iface, warm, ckpt, todo, cur, ret>>

\* reinitialize(): back to the configuration the sampler was constructed with - also after a warm-up, whose tuning is
\* discarded with everything else.  From here on the indices refer to the uninterrupted run of a freshly constructed
\* sampler WITHOUT warm-up (the same run as before if there was no warm-up); a checkpoint saved earlier still refers to
\* the run it was taken from.  The replay keeps one reference run per case (warm-up / none) and switches accordingly.
Reinit ==
    /\ iface = "stateful" /\ Idle /\ Ops < MaxOps
    /\ (Strict => start = 0 /\ k > 0)
    /\ k' = 0 /\ hist' = <<>> /\ cb' = <<>>
    /\ prog' = Append(prog, [op |-> "reinit", n |-> 0, k |-> 0, start |-> 0, hist |-> <<>>, ncb |-> 0,
                             inst |-> inst, ckpt |-> ckpt])
    /\ start' = 0
    /\ UNCHANGED <<iface, inst, warm, ckpt, todo, cur, ret>>

\* ------------------------------ stateless interface ------------------------------
LegacySample(N, Nb) ==
    /\ iface = "legacy" /\ Len(prog) < 2 /\ N \in LegN /\ Nb \in LegNb /\ N + Nb >= 1
    /\ LET first == IF DevLegacyDropsInitial THEN 1 ELSE 0
           chain == [i \in 1..(N + Nb) |-> first + i - 1]          \* S(0) .. S(N+Nb-1)
       IN /\ ret' = SubSeq(chain, Nb + 1, N + Nb)                 \* burn-in discarded: the last N states
          /\ cb' = [i \in 1..(N + Nb - 1) |-> <<i, i>>]           \* every transition-produced state, once, with its index
          /\ prog' = Append(prog, [op |-> "legacy", n |-> N, nb |-> Nb, ret |-> ret', ncb |-> N + Nb - 1])
    /\ UNCHANGED <<iface, k, start, hist, inst, warm, ckpt, todo, cur>>

Next == \/ \E n \in Warm : BeginWarmup(n)
        \/ \E n \in Sizes : BeginSample(n)
        \/ Step \/ Save \/ FreshLoad \/ Reinit
        \/ \E N \in LegN, Nb \in LegNb : LegacySample(N, Nb)

Spec == Init /\ [][Next]_vars

\* ------------------------------ properties ------------------------------
\* the recorded chain lists consecutive states of one chain, in order, beginning right after `start`
\* (Continuity: independent of how the requests were split; Resume: start = checkpoint position)
Consecutive == iface = "stateful" => hist = [i \in 1..Len(hist) |-> start + i]
Tracks      == iface = "stateful" => k = start + Len(hist)
\* the callback is invoked exactly once per transition-produced state, with that state and its chain index
CallbackOnce == iface = "stateful" => cb = [i \in 1..Len(hist) |-> <<hist[i], i - 1>>]
\* recorded length = everything requested from this instance
Length == iface = "stateful" /\ Idle =>
            Len(hist) = LET lastReinit == LET R == {i \in 1..Len(prog) : prog[i].op = "reinit"} IN
                                          IF R = {} THEN 0 ELSE CHOOSE i \in R : \A j \in R : j <= i
                            after == SelectSeq(SubSeq(prog, lastReinit + 1, Len(prog)),
                                               LAMBDA e : e.inst = inst /\ e.op \in {"sample", "warmup"})
                        IN SumN(after)
\* entries are never altered by later transitions
AppendOnly == [][(inst' = inst /\ ~(k' = 0 /\ k > 0)) => IsPrefix(hist, hist')]_vars
\* stateless interface: exactly N states, consecutive, beginning with the initial point when Nb = 0
LegacyOK == iface = "legacy" /\ prog # <<>> =>
              LET e == prog[Len(prog)] IN
                /\ Len(ret) = e.n
                /\ ret = [i \in 1..e.n |-> e.nb + i - 1]
                /\ (e.nb = 0 /\ e.n > 0 => ret[1] = 0)
                /\ cb = [i \in 1..(e.n + e.nb - 1) |-> <<i, i>>]

\* ------------------------------ emission ------------------------------
Terminal == Idle /\ (IF iface = "stateful" THEN Ops = MaxOps ELSE Len(prog) = 1)
Emitted == (Emit /\ Terminal) =>
             PrintT("@@CASE " \o ToJson([kind |-> "life", iface |-> iface, warm |-> warm, prog |-> prog]) \o " @@END")
=============================================================================
