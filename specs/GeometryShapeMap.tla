--------------------------- MODULE GeometryShapeMap ---------------------------
(***************************************************************************)
(* C13, strengthening V (round 10): MappedGeometry / _WrappedGeometry      *)
(* whose MAP CHANGES THE SHAPE of the function values.                     *)
(*                                                                         *)
(* Geometry.tla holds mapped geometries with ENTRY-WISE maps only (affine, *)
(* cube, exp): there "the shapes of a mapped geometry are those of the     *)
(* geometry it wraps" is a theorem.  The class documents no such thing:    *)
(* `map` is "any callable applied after the par2fun of the geometry", and  *)
(* the property says that the function shape / dimension reported by a     *)
(* geometry are those of what its maps produce.  Here the map is one of    *)
(*   sub2   f[::2]                      (sub-sampling along the first axis) *)
(*   cat    concatenate([f, 2f+1])      (first axis doubled)                *)
(*   resh   1-D -> 2-D (n/2, 2) for even n, (n, 1) otherwise; 2-D -> ravel  *)
(*   T      transposition of a 2-D function                                 *)
(*   sum    array([f.sum()])            (one number)                        *)
(*   affine 2f+1 (entry-wise; only inside stacks)                           *)
(* or a stack <<m1, .., mj>> of them = MappedGeometry(.. MappedGeometry(    *)
(* inner, m1) .., mj), over inner geometries of every kind (1-D identity    *)
(* maps, images in C / F order, Continuous2D, visual-only, step expansion). *)
(*                                                                         *)
(* A function value is a record [sh, v]: shape and the entries in C order.  *)
(* The reported function shape is implementation shaped (Reported): the    *)
(* wrapper applies its par2fun to a vector of ones and reads the shape.    *)
(* Named deviation "innershape": the wrapper answers with the function     *)
(* shape of the geometry it wraps - must violate ShapesInv.                *)
(*   ShapesInv    for every parameter vector (basis vectors, ramps) the    *)
(*                shape of par2fun(p) is the reported fun_shape and its     *)
(*                number of entries the reported fun_dim                    *)
(*   SamplesInv   Samples.funvals of W = 1, 2, 3 samples allocates          *)
(*                fun_shape + (W,) and stores par2fun of every sample in it *)
(*                (possible iff the shapes agree), "vector" iff rank <= 2   *)
(*   RoundTripInv where every map of the stack has an inverse (cat: the     *)
(*                first half, resh: the former shape, T, affine):           *)
(*                fun2par = inner.fun2par . imap_1 . .. . imap_j undoes     *)
(*                par2fun                                                   *)
(***************************************************************************)
EXTENDS Mat, FiniteSets, Json

CONSTANTS Dev,      \* "none" | "innershape"
          Emit,
          Level     \* 1 quick | 2 thorough (more sizes)

VARIABLES c
vars == <<c>>

RECURSIVE Prod(_)
Prod(s) == IF s = <<>> THEN 1 ELSE Head(s) * Prod(Tail(s))

\* ---- inner geometries ---------------------------------------------------------------------------------------
Cfg(inner, n, r, cc, s) == [inner |-> inner, n |-> n, r |-> r, cc |-> cc, s |-> s, maps |-> <<>>]
Sizes1 == IF Level < 2 THEN {1, 2, 5, 6} ELSE 1..7
Sizes2 == IF Level < 2 THEN {<<2, 3>>, <<3, 2>>, <<1, 3>>, <<3, 1>>} ELSE {<<2, 3>>, <<3, 2>>, <<1, 3>>, <<3, 1>>, <<3, 3>>, <<4, 2>>, <<1, 1>>}
InnerConfigs ==
    {Cfg(cls, n, 0, 0, 0) : cls \in {"Continuous1D", "Discrete"}, n \in Sizes1}
    \cup {Cfg(cls, 0, q[1], q[2], 0) : cls \in {"Image2D_C", "Image2D_F", "Continuous2D", "Visual_F"}, q \in Sizes2}
    \cup {Cfg("StepExpansion", 5, 0, 0, 2), Cfg("StepExpansion", 4, 0, 0, 4)}      \* grids linspace(0, 1, n): no node on a float boundary
Is2D(k)  == k.inner \in {"Image2D_C", "Image2D_F", "Continuous2D"}
ParDim(k) == CASE k.inner \in {"Continuous1D", "Discrete"} -> k.n
               [] k.inner = "StepExpansion" -> k.s
               [] OTHER -> k.r * k.cc
InnerShape(k) == IF Is2D(k) THEN <<k.r, k.cc>> ELSE IF k.inner = "StepExpansion" THEN <<k.n>> ELSE <<ParDim(k)>>
\* step of node j (0-based): closed form, node j > 0 lies in step ceil(j s / (n-1)) - 1
StepOf(k, j) == IF j = 0 THEN 0 ELSE ((j * k.s + (k.n - 2)) \div (k.n - 1)) - 1
NodesOf(k, i) == {j \in 0..(k.n - 1) : StepOf(k, j) = i}
InnerP2F(k, p) ==
    [sh |-> InnerShape(k),
     v  |-> CASE k.inner = "Image2D_F" -> F([t \in 1..(k.r * k.cc) |-> p[((t - 1) % k.cc) * k.r + ((t - 1) \div k.cc) + 1]])
              [] k.inner = "StepExpansion" -> F([j \in 1..k.n |-> p[StepOf(k, j - 1) + 1]])
              [] OTHER -> p]
InnerF2P(k, f) ==
    CASE k.inner = "Image2D_F" -> F([q \in 1..(k.r * k.cc) |-> f.v[((q - 1) % k.r) * k.cc + ((q - 1) \div k.r) + 1]])
      [] k.inner = "StepExpansion" ->
            F([i \in 1..k.s |-> RDiv(RSumSeq([q \in 1..k.n |-> IF (q - 1) \in NodesOf(k, i - 1) THEN f.v[q] ELSE Zero]),
                                      R(Cardinality(NodesOf(k, i - 1))))])
      [] OTHER -> f.v

\* ---- the maps --------------------------------------------------------------------------------------------------
Aff(v) == F([i \in 1..Len(v) |-> RAdd(RMul(R(2), v[i]), One)])
ApplyMap(m, f) ==
    LET sh == f.sh  v == f.v  d1 == sh[1]  rl == Prod(Tail(sh))
    IN CASE m = "affine" -> [sh |-> sh, v |-> Aff(v)]
         [] m = "sub2" -> LET e == (d1 + 1) \div 2
                          IN [sh |-> <<e>> \o Tail(sh),
                              v  |-> F([t \in 1..(e * rl) |-> v[(2 * ((t - 1) \div rl)) * rl + ((t - 1) % rl) + 1]])]
         [] m = "cat"  -> [sh |-> <<2 * d1>> \o Tail(sh), v |-> v \o Aff(v)]
         [] m = "resh" -> [sh |-> IF Len(sh) = 1 THEN (IF d1 % 2 = 0 THEN <<d1 \div 2, 2>> ELSE <<d1, 1>>) ELSE <<Prod(sh)>>, v |-> v]
         [] m = "T"    -> LET a == sh[1]  b == sh[2]
                          IN [sh |-> <<b, a>>, v |-> F([t \in 1..(a * b) |-> v[((t - 1) % a) * b + ((t - 1) \div a) + 1]])]
         [] m = "sum"  -> [sh |-> <<1>>, v |-> <<RSumSeq(v)>>]
HasInverse(m) == m \in {"affine", "cat", "resh", "T"}
\* the inverse of m on the range of m; shin = the shape m was applied to
IApplyMap(m, f, shin) ==
    CASE m = "affine" -> [sh |-> f.sh, v |-> F([i \in 1..Len(f.v) |-> RDiv(RSub(f.v[i], One), R(2))])]
      [] m = "cat"    -> [sh |-> shin, v |-> F([i \in 1..Prod(shin) |-> f.v[i]])]
      [] m = "resh"   -> [sh |-> shin, v |-> f.v]
      [] m = "T"      -> ApplyMap("T", f)
MapOk(m, sh) == (m = "T" => Len(sh) = 2)
RECURSIVE Fwd(_, _)
Fwd(ms, f) == IF ms = <<>> THEN f ELSE Fwd(Tail(ms), ApplyMap(Head(ms), f))
\* the shapes the maps of the stack are applied to (shape algebra only)
RECURSIVE ShapesIn(_, _)
ShapesIn(ms, sh) == IF ms = <<>> THEN <<>>
                    ELSE <<sh>> \o ShapesIn(Tail(ms), ApplyMap(Head(ms), [sh |-> sh, v |-> [i \in 1..Prod(sh) |-> Zero]]).sh)
RECURSIVE StackOk(_, _)
StackOk(ms, sh) == ms = <<>> \/ (MapOk(Head(ms), sh) /\ StackOk(Tail(ms), ApplyMap(Head(ms), [sh |-> sh, v |-> [i \in 1..Prod(sh) |-> Zero]]).sh))
RECURSIVE Inv(_, _, _)
Inv(ms, f, shs) == IF ms = <<>> THEN f ELSE IApplyMap(Head(ms), Inv(Tail(ms), f, Tail(shs)), Head(shs))

MapStacks == {<<"sub2">>, <<"cat">>, <<"resh">>, <<"T">>, <<"sum">>,
              <<"affine", "sub2">>, <<"sub2", "cat">>, <<"cat", "resh">>, <<"resh", "T">>, <<"resh", "sub2">>, <<"T", "affine">>}
Configs == {[k EXCEPT !.maps = ms] : k \in {kk \in InnerConfigs : TRUE}, ms \in MapStacks}
Valid(k) == StackOk(k.maps, InnerShape(k))

\* ---- the geometry --------------------------------------------------------------------------------------------------
P2F(k, p)  == Fwd(k.maps, InnerP2F(k, p))
HasInv(k)  == \A i \in 1..Len(k.maps) : HasInverse(k.maps[i])
F2P(k, f)  == InnerF2P(k, Inv(k.maps, f, ShapesIn(k.maps, InnerShape(k))))
Ones(k)    == [i \in 1..ParDim(k) |-> One]
\* what the wrapper reports: the shape of its par2fun on a vector of ones; deviation: the wrapped geometry's
Reported(k) == IF Dev = "innershape" THEN InnerShape(k) ELSE P2F(k, Ones(k)).sh
FunDim(k)   == Prod(Reported(k))

Unit(d, q) == [i \in 1..d |-> IF i = q THEN One ELSE Zero]
P0(k, w)   == F([i \in 1..ParDim(k) |-> R(i + 10 * (w - 1))])
Inputs(k)  == {Unit(ParDim(k), q) : q \in 1..ParDim(k)} \cup {P0(k, w) : w \in 1..3}

Shapes(k) == \A p \in Inputs(k) : LET f == P2F(k, p) IN f.sh = Reported(k) /\ Len(f.v) = FunDim(k)
\* Samples.funvals: np.empty(fun_shape + (Ns,)); funvals[..., i] = par2fun(sample i)
SamplesShape(k, W) == Reported(k) \o <<W>>
Samples(k) == \A W \in 1..3 : \A w \in 1..W : P2F(k, P0(k, w)).sh = Reported(k)
RoundTrip(k) == HasInv(k) => \A p \in Inputs(k) : F2P(k, P2F(k, p)) = p

ShapesInv    == Shapes(c)
SamplesInv   == Samples(c)
RoundTripInv == RoundTrip(c)
\* vacuity: the configuration space holds maps that change the number of entries, the rank, both, and none of them
Vacuity == /\ \E k \in Configs : Valid(k) /\ Prod(P2F(k, Ones(k)).sh) < Prod(InnerShape(k))
           /\ \E k \in Configs : Valid(k) /\ Prod(P2F(k, Ones(k)).sh) > Prod(InnerShape(k))
           /\ \E k \in Configs : Valid(k) /\ Len(P2F(k, Ones(k)).sh) > Len(InnerShape(k))
           /\ \E k \in Configs : Valid(k) /\ Len(P2F(k, Ones(k)).sh) < Len(InnerShape(k))
           /\ \E k \in Configs : Valid(k) /\ Prod(P2F(k, Ones(k)).sh) = Prod(InnerShape(k)) /\ P2F(k, Ones(k)).sh # InnerShape(k)
ASSUME Vacuity

Rec(k) ==
    [kind |-> "shapemap", c |-> k, par_dim |-> ParDim(k), inner_shape |-> InnerShape(k),
     fun_shape |-> P2F(k, Ones(k)).sh, fun_dim |-> Prod(P2F(k, Ones(k)).sh),
     shapes_in |-> ShapesIn(k.maps, InnerShape(k)), has_inv |-> HasInv(k),
     \* par2fun (entries in C order) of the basis vectors and of the three columns of the parameter batch
     units |-> F([q \in 1..ParDim(k) |-> P2F(k, Unit(ParDim(k), q)).v]),
     cols  |-> F([w \in 1..3 |-> P2F(k, P0(k, w)).v]),
     sshape |-> F([W \in 1..3 |-> SamplesShape(k, W)]),
     svec   |-> F([W \in 1..3 |-> Len(SamplesShape(k, W)) <= 2])]
EmitInv == Emit => PrintT("@@CASE " \o ToJson(Rec(c)) \o " @@END")

Init == c \in {k \in Configs : Valid(k)}
Next == UNCHANGED c
Spec == Init /\ [][Next]_vars
=============================================================================
