---------------------------- MODULE DiffOpsLive ----------------------------
(***************************************************************************)
(* Property C20 (and the same facet of C04), part `Live`: parameters that  *)
(* an object READS AT EVALUATION TIME, edited IN PLACE through the array   *)
(* the public getter hands out.                                            *)
(*                                                                         *)
(* ORACLE.  The density an object reports is the documented density at the *)
(* parameter values the object itself reports through its public getters   *)
(* at that moment.                                                         *)
(*                                                                         *)
(* Every parameter of every family is tagged (LvTags, read off the code of *)
(* the unchanged tree, recorded here, emitted to the replay):              *)
(*   "Live"      the object keeps the array (the one it was given, or the  *)
(*               one its setter made) and reads it whenever a density /    *)
(*               gradient / cdf is evaluated: `prior.location[:] = v` has  *)
(*               the documented meaning "the location is v now";           *)
(*   "Snapshot"  the value is transformed when it is assigned (Gaussian    *)
(*               matrix forms are factorised, the MRF operator, Cholesky   *)
(*               factor, rank and log-determinant are built in __init__):  *)
(*               an in-place edit has no documented meaning - NOT          *)
(*               exercised;                                                *)
(*   "Scalar"    documented as a scalar and stored as the (immutable)      *)
(*               value it was given: there is nothing to edit in place.    *)
(* Only "Live" parameters are edited in place by the replay.               *)
(*                                                                         *)
(* Two parts (cfg: INIT / NEXT):                                           *)
(*  LvCfg   configuration enumeration: for every valid (pd, n, bc, order)  *)
(*          and prior family the exact integer facts  D (x - loc), its     *)
(*          square norm, for FOUR locations (two genuinely vector-valued,  *)
(*          two constant = also passed as a scalar) and two precisions /   *)
(*          scales; invariant LvVisible: the locations are pairwise        *)
(*          distinguishable by the facts (a stale value cannot hide),      *)
(*          except the two constants where constants are in the null space *)
(*          of D (flagged per pair in the emitted case).                   *)
(*  LvWalk  behaviours of ONE object with one Live parameter L and one     *)
(*          other parameter:                                               *)
(*            rep   version (1 | 2) of L the getter reports                *)
(*            oth   version of the other parameter                         *)
(*            kept  <<>> or <<<<rep, oth>>>> from which the object last    *)
(*                  derived anything it keeps (ghost)                      *)
(*            last  <<>> or <<versions the answer was computed from,       *)
(*                  versions reported when it was computed>>               *)
(*          LvEvaluate(obs)  an observable is evaluated                    *)
(*          LvEdit(how)      L is edited in place through the array the    *)
(*                           getter returns: whole slice, item by item,    *)
(*                           augmented assignment (a += delta), or through *)
(*                           the array the caller handed to the            *)
(*                           constructor / setter ("argbuf": the getter    *)
(*                           reports the new value iff the object kept     *)
(*                           that very array - both outcomes are allowed,  *)
(*                           LvEditNoAlias / LvEdit, the replay follows    *)
(*                           what the getter reports)                      *)
(*          LvAssign         L is replaced through its public setter       *)
(*          LvAssignOther    the other parameter is replaced               *)
(*          Invariant LvReportedIsUsed: every answer is computed from the  *)
(*          versions the getters report at that moment.  Named deviation   *)
(*          DevKeepsDerived (cfg DiffOpsLive.dev_keeps_derived.cfg): what  *)
(*          was derived from L at an evaluation (D @ location ...) is kept *)
(*          until a SETTER runs - TLC must refute LvReportedIsUsed         *)
(*          (Evaluate . Edit . Evaluate).                                  *)
(*          Every behaviour of at most MaxLvOps operations that ends in an evaluation after an edit is emitted; the replay  *)
(*          drives them on real objects of every configuration / family.   *)
(***************************************************************************)
EXTENDS DiffOps

CONSTANTS DevKeepsDerived,      \* named deviation; FALSE in the deciding configurations
          MaxLvOps              \* operations per behaviour

\* ---- tagging of every parameter of every family (C20: the three Markov random fields; C04: the other families) -----------
LvTags ==
    [GMRF            |-> [mean |-> "Live", prec |-> "Scalar", bc_type |-> "Snapshot", order |-> "Snapshot"],
     LMRF            |-> [location |-> "Live", scale |-> "Scalar", bc_type |-> "Snapshot"],
     CMRF            |-> [location |-> "Live", scale |-> "Scalar", bc_type |-> "Snapshot"],
     Normal          |-> [mean |-> "Live", std |-> "Live"],
     Laplace         |-> [location |-> "Live", scale |-> "Scalar"],
     SmoothedLaplace |-> [location |-> "Live", scale |-> "Live", beta |-> "Scalar"],
     Cauchy          |-> [location |-> "Live", scale |-> "Live"],
     Gamma           |-> [shape |-> "Live", rate |-> "Live"],
     InverseGamma    |-> [shape |-> "Live", location |-> "Live", scale |-> "Live"],
     Beta            |-> [alpha |-> "Live", beta |-> "Live"],
     Uniform         |-> [low |-> "Live", high |-> "Live"],
     Gaussian        |-> [mean |-> "Live", cov |-> "Snapshot", prec |-> "Snapshot", sqrtcov |-> "Snapshot", sqrtprec |-> "Snapshot"],
     Lognormal       |-> [mean |-> "Snapshot", cov |-> "Snapshot"],
     ModifiedHalfNormal |-> [alpha |-> "Scalar", beta |-> "Scalar", gamma |-> "Scalar"]]
LvTagValues == {"Live", "Snapshot", "Scalar"}

\* ---- part LvCfg: facts of every configuration -----------------------------------------------------------------------------
LvNLoc == 4
LvNPar == 2
LvLoc(k, i) ==
    CASE i = 1 -> [j \in 1..Dim(k) |-> ((j * j) % 5) - 2]
      [] i = 2 -> [j \in 1..Dim(k) |-> ((j * j * j + 2) % 5) - 2]
      [] i = 3 -> [j \in 1..Dim(k) |-> 2]                         \* constant: also passed as a scalar
      [] OTHER -> [j \in 1..Dim(k) |-> -1]                        \* constant
LvPar(i) == IF i = 1 THEN <<1, 1>> ELSE <<4, 1>>                  \* precision / scale as <<numerator, denominator>>
LvFacts(k, D, li, pi) ==
    LET r  == F([j \in 1..Dim(k) |-> RePriorX(k)[j] - LvLoc(k, li)[j]])
        Dr == IF Len(D) = 0 THEN <<>> ELSE IMV(D, r)
    IN [loc |-> LvLoc(k, li), locconst |-> (li >= 3), par |-> LvPar(pi), r |-> r, Dr |-> Dr, quad |-> IDot(Dr, Dr)]

LvCfgInit == c \in { kf[1] @@ [lv |-> [fam |-> kf[2]]] :
                        kf \in { q \in {p \in Configs : Valid(p)} \X RePriorFams : RePriorCfgOk(q[2], q[1]) } }
LvCfgNext == UNCHANGED c
LvBase(s) == [pd |-> s.pd, n |-> s.n, bc |-> s.bc, order |-> s.order, wm |-> s.wm]
LvPairVisible(k, D, i, j) == LvFacts(k, D, i, 1).Dr # LvFacts(k, D, j, 1).Dr
\* the two constant locations differ by a constant vector: distinguishable exactly when constants are not in the null space of D
LvVisible ==
    LET k == LvBase(c)  D == DOp(k)
    IN /\ \A i \in 1..LvNLoc : \A j \in 1..LvNLoc : (i < j /\ <<i, j>> # <<3, 4>>) => LvPairVisible(k, D, i, j)
       /\ (LvPairVisible(k, D, 3, 4) <=> Len(NullBasis(k)) = 0)
       /\ LvPar(1) # LvPar(2)
LvTagsTotal == \A f \in DOMAIN LvTags : \A p \in DOMAIN LvTags[f] : LvTags[f][p] \in LvTagValues
LvCfgEmit ==
    Emit =>
      LET k == LvBase(c)
          D == DOp(k)
          P == IF Len(D) = 0 THEN [i \in 1..Dim(k) |-> [j \in 1..Dim(k) |-> 0]] ELSE IMM(IT(D), D)
      IN /\ PrintT("@@CASE " \o ToJson(
              [kind |-> "livecfg", fam |-> c.lv.fam, pd |-> k.pd, n |-> k.n, bc |-> k.bc, order |-> k.order, wm |-> k.wm,
               D |-> D, P |-> P, rank |-> Dim(k) - Len(NullBasis(k)), x |-> RePriorX(k),
               tags |-> LvTags[c.lv.fam],
               facts |-> [li \in 1..LvNLoc |-> [pi \in 1..LvNPar |-> LvFacts(k, D, li, pi)]],
               visible |-> [li \in 1..LvNLoc |-> [lj \in 1..LvNLoc |-> LvPairVisible(k, D, li, lj)]]]) \o " @@END")
         /\ ((c.lv.fam = "GMRF" /\ k.pd = 1 /\ k.n = 2 /\ k.bc = "zero" /\ k.order = 1) =>
                PrintT("@@CASE " \o ToJson([kind |-> "livetags", tags |-> LvTags]) \o " @@END"))

\* ---- part LvWalk: behaviours of one object ------------------------------------------------------------------------------------
LvObs   == {"logpdf", "gradient"}
LvHows  == {"slice", "items", "iadd", "argbuf"}
LvWalkInit == c = [part |-> "walk", rep |-> 1, oth |-> 1, kept |-> <<>>, last |-> <<>>, ops |-> <<>>, ned |-> 0, nas |-> 0, nev |-> 0]
LvMore == Len(c.ops) < MaxLvOps
LvEvaluate(obs) ==
    /\ LvMore /\ c.nev < 3
    /\ LET now  == <<c.rep, c.oth>>
           used == IF DevKeepsDerived /\ c.kept # <<>> THEN c.kept[1] ELSE now
       IN c' = [c EXCEPT !.kept = <<used>>, !.last = <<used, now>>, !.nev = @ + 1,
                         !.ops = Append(@, [op |-> "evaluate", obs |-> obs])]
LvEdit(how) ==                       \* the getter reports the other version afterwards; no setter runs
    /\ LvMore /\ c.ned < 2
    /\ c' = [c EXCEPT !.rep = 3 - @, !.last = <<>>, !.ned = @ + 1,
                      !.kept = IF DevKeepsDerived THEN @ ELSE <<>>,
                      !.ops = Append(@, [op |-> "edit", how |-> how])]
LvEditNoAlias ==                     \* "argbuf" when the object did not keep the caller's array: nothing changes
    /\ LvMore /\ c.ned < 2
    /\ c' = [c EXCEPT !.last = <<>>, !.ned = @ + 1, !.ops = Append(@, [op |-> "edit", how |-> "argbuf-noalias"])]
LvAssign ==
    /\ LvMore /\ c.nas < 1
    /\ c' = [c EXCEPT !.rep = 3 - @, !.kept = <<>>, !.last = <<>>, !.nas = @ + 1, !.ops = Append(@, [op |-> "assign", what |-> "live"])]
LvAssignOther ==
    /\ LvMore /\ c.nas < 1
    /\ c' = [c EXCEPT !.oth = 3 - @, !.kept = <<>>, !.last = <<>>, !.nas = @ + 1, !.ops = Append(@, [op |-> "assign", what |-> "other"])]
LvWalkNext == (\E o \in LvObs : LvEvaluate(o)) \/ (\E h \in LvHows : LvEdit(h)) \/ LvEditNoAlias \/ LvAssign \/ LvAssignOther

LvReportedIsUsed == c.last # <<>> => c.last[1] = c.last[2]
LvIsEdit(o) == o.op = "edit"
LvIsEval(o) == o.op = "evaluate"
\* behaviours worth replaying: the last operation is an evaluation and some edit precedes it
LvWorth == /\ Len(c.ops) >= 2 /\ LvIsEval(c.ops[Len(c.ops)])
           /\ \E i \in 1..(Len(c.ops) - 1) : LvIsEdit(c.ops[i]) /\ c.ops[i].how # "argbuf-noalias"
LvWalkEmit == /\ (Emit /\ LvWorth) => PrintT("@@CASE " \o ToJson([kind |-> "livewalk", ops |-> c.ops]) \o " @@END")
              /\ (Emit /\ c.ops = <<>>) => PrintT("@@CASE " \o ToJson([kind |-> "livetags", tags |-> LvTags]) \o " @@END")
=============================================================================
