---------------------------- MODULE ModelGeomIdent ----------------------------
(***************************************************************************)
(* Property C12, round 7: the IDENTITY of the geometry object an input     *)
(* carries, and the data layout of the input.                              *)
(*                                                                         *)
(* A CUQIarray / Samples object carries a geometry.  In every case of      *)
(* ModelGeom part C12 (and of ModelGeomSeq12) it is THE model's domain      *)
(* geometry OBJECT.  A user's arrays usually carry another object that is   *)
(* EQUAL to it: the geometry handed to the prior (prior.sample()), a copy /  *)
(* deep copy, a geometry constructed a second time with the same arguments, *)
(* or the original's geometry while the MODEL is a deep copy.               *)
(* Model._2fun / _2par: "if x is CUQIarray and geometry are consistent, we   *)
(* obtain funvals directly".  Abstract objects = [g |-> geometry record,     *)
(* id |-> identity]; INTENDED: consistent = equal records (whatever the ids) *)
(* - the typed route; otherwise the generic route (the call's is_par flag    *)
(* decides whether par2fun / fun2par is applied to the raw values).          *)
(*                                                                         *)
(* A configuration = configuration of ModelGeom part C12 (its invariant     *)
(* OneOutput is checked on it unchanged; the NUMBERS are its `c12` case)     *)
(* + gid (GeomIdentity) + lay (data layout of the raw values).               *)
(* Invariants                                                               *)
(*   IdentOneInput   for every representation and every EQUAL identity the   *)
(*                   function value handed to the core operator is G v, as   *)
(*                   for the model's own object                              *)
(*   IdentWrt        gradient: the parameter / function value of `wrt`       *)
(*                   obtained from a CUQIarray with an equal geometry are     *)
(*                   w / G w                                                 *)
(*   IdentVisible    (vacuity) under the generic route the function-value    *)
(*                   representation WOULD be converted again: the            *)
(*                   configurations kept are those where that changes the     *)
(*                   value or is ill-typed                                   *)
(*   IdentSamplesPar a Samples object of PARAMETERS is converted with the     *)
(*                   MODEL's par2fun whatever geometry it carries (default,   *)
(*                   identity-like, another map)                              *)
(* Deviations GeometryMatchedByIdentity (consistent = same id) and            *)
(* SamplesConvertedWithOwnGeometry (collection converted all-at-once with     *)
(* the geometry stored in the Samples object): refuted.                       *)
(* Geometries that are NOT equal (other grid / other size) are emitted too:   *)
(* nothing is asserted for them (gid other_*; the documentation does not say  *)
(* what happens), the replay records what it sees.                           *)
(***************************************************************************)
EXTENDS ModelGeom

CONSTANTS IdWide       \* TRUE: all model kinds / range geometries

EqualIds == {"same", "copy", "deepcopy", "twice", "prior", "model_deepcopy"}
\* a Samples object of PARAMETERS carrying a geometry of the model's parameter dimension that is NOT the model's: none given
\* (Samples(P): a default geometry), an identity-like one, a mapped one with another map.  forward: "converts the input to function
\* values (if needed) using the domain geometry OF THE MODEL" - asserted for the representation `samples` (round 8)
ParOnlyIds == {"default", "other_identity", "other_mapped"}
OtherIds == {"other_compatible", "other_incompatible"}
\* ids of (the model's domain object, the object the input carries)
IdsOf(gid) == CASE gid = "same" -> <<1, 1>>
                [] gid = "model_deepcopy" -> <<11, 1>>        \* the model was deep-copied, the input carries the original's object
                [] OTHER -> <<1, 7>>
\* the geometry RECORD the input carries
CarriedG(k) == CASE k.gid = "default"            -> Geo("default1d", k.dg.k, k.dg.k, 1, k.dg.k, "", <<>>)
                 [] k.gid = "other_identity"     -> Geo("cont1d", k.dg.k, k.dg.k, 1, k.dg.k, "", <<>>)
                 [] k.gid = "other_mapped"       -> Geo("mapped", k.dg.k, k.dg.k, 1, k.dg.k, "", <<>>)
                 [] k.gid = "other_compatible"   -> [k.dg EXCEPT !.kind = "other"]
                 [] k.gid = "other_incompatible" -> [k.dg EXCEPT !.kind = "other", !.k = k.dg.k + 1]
                 [] OTHER -> k.dg
Consistent(k) == IF "GeometryMatchedByIdentity" \in Dev THEN IdsOf(k.gid)[1] = IdsOf(k.gid)[2]
                 ELSE CarriedG(k) = k.dg

IdReps == {"arr_par", "arr_fun", "arr_fun_flagged", "samples", "samples_fun"}
\* function value handed to the core operator for the parameter vector v (Model._2fun as documented)
IdToFun(k, rep, v) ==
    LET Gv == P2FV(k.dg, v)
        generic(raw, flag) == IF flag THEN RePF(k.dg, raw) ELSE raw      \* the call's is_par decides
    IN CASE rep = "arr_par"         -> Gv                                                    \* typed: funvals = G v; generic: par2fun(v) = G v
         [] rep = "arr_fun"         -> IF Consistent(k) THEN Gv ELSE generic(Gv, TRUE)        \* forward(x): is_par defaults to TRUE
         [] rep = "arr_fun_flagged" -> IF Consistent(k) THEN Gv ELSE generic(Gv, FALSE)
         \* Samples of parameters: the items are plain columns, converted with the MODEL's par2fun whatever geometry the Samples object carries
         [] rep = "samples"         -> IF "SamplesConvertedWithOwnGeometry" \in Dev /\ k.gid \in ParOnlyIds
                                       THEN (IF k.dg.k = k.dg.n THEN P2FV(CarriedG(k), v) ELSE IllTyped) ELSE Gv
         [] rep = "samples_fun"     -> IF Consistent(k) THEN Gv ELSE generic(Gv, FALSE)       \* items are passed on with the samples' own flag
\* gradient: parameters / function value of wrt (Model._2par, then _2fun)
IdWrtPar(k, rep, w) == IF rep = "arr_par" THEN w
                       ELSE IF Consistent(k) THEN w ELSE P2FV(k.dg, w)                        \* generic, is_wrt_par = TRUE: raw values taken for parameters
IdWrtFun(k, rep, w) == IF rep = "arr_par" THEN P2FV(k.dg, w)
                       ELSE IF Consistent(k) THEN P2FV(k.dg, w) ELSE RePF(k.dg, P2FV(k.dg, w))

IdV(k) == VR(IVecA(k.dg.k, k.fi))
IdW(k) == VR(IVecB(k.dg.k, k.fi + 1))

\* would a second par2fun change the function value (or be ill-typed)?
IdSensitive(k) == RePF(k.dg, P2FV(k.dg, IdV(k))) # P2FV(k.dg, IdV(k))

Layouts12 == <<"f64c", "int", "f32", "strided", "readonly", "fortran">>
IdKinds == IF IdWide THEN GenKinds ELSE {"gen_grad", "gen_jac", "lin_dense", "lin_func"}
IdRng   == IF IdWide THEN {g \in C12Rng(4) : g.kind \in {"cont1d", "mapped", "imgC", "step"}} ELSE {g \in C12Rng(4) : g.kind \in {"cont1d", "mapped"}}
GidNo(gid) == CASE gid = "same" -> 0 [] gid = "copy" -> 1 [] gid = "deepcopy" -> 2 [] gid = "twice" -> 3 [] gid = "prior" -> 4
                [] gid = "model_deepcopy" -> 5 [] gid = "other_compatible" -> 6 [] gid = "default" -> 8 [] gid = "other_identity" -> 9
                [] gid = "other_mapped" -> 10 [] OTHER -> 7
IdConfigs == { [part |-> "C12", mk |-> mk, dg |-> dg, rg |-> rg, fi |-> 1, gid |-> gid,
                lay |-> Layouts12[((GidNo(gid) + dg.k + rg.k + (IF dg.kind = "step" THEN 1 ELSE 0) + (IF mk = "lin_func" THEN 2 ELSE 0)) % 6) + 1]] :
                 mk \in IdKinds, dg \in C12Dom(6), rg \in IdRng, gid \in (EqualIds \ {"same"}) \cup OtherIds \cup ParOnlyIds }
IdValid(k) == /\ C12Valid([part |-> "C12", mk |-> k.mk, dg |-> k.dg, rg |-> k.rg, fi |-> k.fi])
              /\ (k.gid \in OtherIds => (k.dg.kind \in {"cont1d", "step", "mapped"} /\ k.mk = "lin_dense" /\ k.rg.kind = "cont1d"))
              /\ (IdWide \/ IdSensitive(k) \/ k.dg.kind \in {"cont1d", "imgF"})

IdInit == c \in {k \in IdConfigs : IdValid(k)}
IdNext == UNCHANGED c

IdentOneInput == c.gid \in EqualIds => \A rep \in IdReps : IdToFun(c, rep, IdV(c)) = P2FV(c.dg, IdV(c))
IdentWrt      == c.gid \in EqualIds => \A rep \in {"arr_par", "arr_fun"} :
                    /\ IdWrtPar(c, rep, IdW(c)) = IdW(c)
                    /\ IdWrtFun(c, rep, IdW(c)) = P2FV(c.dg, IdW(c))
IdentSamplesPar == c.gid \in ParOnlyIds => IdToFun(c, "samples", IdV(c)) = P2FV(c.dg, IdV(c))
IdentVisible  == (c.gid \in EqualIds \cup ParOnlyIds /\ ~IdWide /\ c.dg.kind \notin {"cont1d", "imgF"}) => IdSensitive(c)
IdentEmit == Emit => PrintT("@@CASE " \o ToJson([kind |-> "ident", mk |-> c.mk, dg |-> c.dg, rg |-> c.rg, fi |-> c.fi, gid |-> c.gid, lay |-> c.lay,
                                                  sensitive |-> IdSensitive(c)]) \o " @@END")
=============================================================================
