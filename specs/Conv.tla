------------------------------- MODULE Conv -------------------------------
(***************************************************************************)
(* Discrete convolution operators of the deconvolution test problems       *)
(* (property C17; the matrices are also the oracle of C07 for these        *)
(* operators).                                                             *)
(*                                                                         *)
(* Documented operator (Deconvolution1D docstring: "computed via           *)
(* scipy.ndimage.convolve1d"; Deconvolution2D: the repository's own test   *)
(* compares with scipy.ndimage.convolve), written here as an index         *)
(* definition with nothing copied from the implementation:                 *)
(*                                                                         *)
(*    (P * x)_i = SUM_k P_k * x_{ext(i + c - k)},   c = floor(len(P) / 2)   *)
(*                                                                         *)
(* (0-based i, k) where ext extends the signal beyond 0..n-1:              *)
(*    zero     : 0 outside                                                 *)
(*    periodic : i mod n                                                   *)
(*    reflect  : d c b a | a b c d | d c b a  (about the EDGE of the last  *)
(*               pixel; period 2n)      [2-D name: "neumann"]              *)
(*    mirror   : d c b | a b c d | c b a      (about the CENTRE of the     *)
(*               last pixel; period 2n-2)                                  *)
(*    nearest  : clamp to 0..n-1                                           *)
(* 2-D: the same with ext applied per axis and c = floor(m / 2) per axis   *)
(* for an m x m PSF; images are flattened row-major (C order).             *)
(* The matrix of the operator has COLUMN j equal to the convolution of the *)
(* unit signal e_j.                                                        *)
(*                                                                         *)
(* The 2-D operator is also written implementation-shaped (one definition  *)
(* per code step: pad by floor(m/2) -> full "valid" convolution -> drop    *)
(* the first row and column when m is even); TLC checks that the steps     *)
(* compose to the index definition.                                        *)
(*                                                                         *)
(* A state is one configuration [pd, n, m, bc, psf]; TLC enumerates all of *)
(* them, checks the invariants and emits the exact integer matrices.       *)
(* Named deviation (DESIGN 2.7): RowsInsteadOfColumns - the matrix is      *)
(* assembled with conv(e_i) as ROW i.  Off in the deciding configurations. *)
(***************************************************************************)
EXTENDS Mat, FiniteSets, TLC, Json

CONSTANTS MaxN1,      \* largest 1-D signal length
          MaxM1,      \* largest 1-D PSF length
          MaxN2,      \* largest 2-D side length
          MaxM2,      \* largest 2-D PSF side length
          Emit,       \* TRUE: print one @@CASE line per configuration
          Deviation   \* "none" | "RowsInsteadOfColumns"

VARIABLE c            \* configuration record [pd, n, m, bc, psf]

BCs1 == {"zero", "periodic", "mirror", "reflect", "nearest"}
BCs2 == {"zero", "periodic", "mirror", "neumann", "nearest"}
PSFs == {"ramp", "quad", "sym"}

\* the extension behind a documented boundary-condition name
ExtName(bc) == IF bc = "neumann" THEN "reflect" ELSE bc

\* ---- integer helpers ---------------------------------------------------------
Mod(i, n) == ((i % n) + n) % n
RECURSIVE ISum(_)
ISum(s)   == IF s = <<>> THEN 0 ELSE Head(s) + ISum(Tail(s))
IAbs(a)   == IF a < 0 THEN -a ELSE a
IT(M)     == IF Len(M) = 0 THEN <<>> ELSE F([j \in 1..Len(M[1]) |-> [i \in 1..Len(M) |-> M[i][j]]])
IDot(u,v) == ISum([i \in 1..Len(u) |-> u[i] * v[i]])
IMV(A, x) == F([i \in 1..Len(A) |-> IDot(A[i], x)])
ICol(A, j)== F([i \in 1..Len(A) |-> A[i][j]])
EVec(n, j)== [i \in 1..n |-> IF i = j THEN 1 ELSE 0]
IKron(A, B) ==
    LET ra == Len(A) ca == Len(A[1]) rb == Len(B) cb == Len(B[1])
    IN F([i \in 1..(ra * rb) |-> [j \in 1..(ca * cb) |->
          A[((i - 1) \div rb) + 1][((j - 1) \div cb) + 1] * B[((i - 1) % rb) + 1][((j - 1) % cb) + 1]]])

\* ---- boundary extension: 0-based index in 0..n-1, or -1 for "contributes zero" ---------
Ext(ext, i, n) ==
    CASE ext = "zero"     -> IF i >= 0 /\ i < n THEN i ELSE -1
      [] ext = "periodic" -> Mod(i, n)
      [] ext = "reflect"  -> LET r == Mod(i, 2 * n) IN IF r < n THEN r ELSE (2 * n - 1) - r
      [] ext = "mirror"   -> IF n = 1 THEN 0
                             ELSE LET r == Mod(i, 2 * n - 2) IN IF r < n THEN r ELSE (2 * n - 2) - r
      [] ext = "nearest"  -> IF i < 0 THEN 0 ELSE IF i >= n THEN n - 1 ELSE i

Ctr(m) == m \div 2

\* index map: J[i][k] = 1-based position of the sample that PSF tap k reads for output i (0 = none)
J1(n, m, bc) == F([i \in 1..n |-> [k \in 1..m |-> Ext(ExtName(bc), (i - 1) + Ctr(m) - (k - 1), n) + 1]])

\* ---- 1-D: the convolution of a signal (gather form) -------------------------------
Conv1(P, x, bc) ==
    LET n == Len(x)  m == Len(P)  J == J1(n, m, bc)
    IN F([i \in 1..n |-> ISum([k \in 1..m |-> IF J[i][k] = 0 THEN 0 ELSE P[k] * x[J[i][k]]])])

\* ---- 1-D: the matrix (scatter form): A[i][j] = sum of the taps k that read sample j for output i
ConvMat1(P, n, bc) ==
    LET m == Len(P)  J == J1(n, m, bc)
    IN F([i \in 1..n |-> [j \in 1..n |-> ISum([k \in 1..m |-> IF J[i][k] = j THEN P[k] ELSE 0])]])

\* ---- 2-D: image = sequence of rows; PSF m x m ---------------------------------------
Conv2(P, X, bc) ==
    LET n == Len(X)  m == Len(P)  J == J1(n, m, bc)
    IN F([i1 \in 1..n |-> [i2 \in 1..n |->
          ISum([q \in 1..(m * m) |->
                 LET k1 == ((q - 1) \div m) + 1  k2 == ((q - 1) % m) + 1
                 IN IF J[i1][k1] = 0 \/ J[i2][k2] = 0 THEN 0 ELSE P[k1][k2] * X[J[i1][k1]][J[i2][k2]]])]])

ConvMat2(P, n, bc) ==
    LET m == Len(P)  J == J1(n, m, bc)
    IN F([r \in 1..(n * n) |-> [s \in 1..(n * n) |->
          LET i1 == ((r - 1) \div n) + 1  i2 == ((r - 1) % n) + 1
              j1 == ((s - 1) \div n) + 1  j2 == ((s - 1) % n) + 1
          IN ISum([q \in 1..(m * m) |->
                 LET k1 == ((q - 1) \div m) + 1  k2 == ((q - 1) % m) + 1
                 IN IF J[i1][k1] = j1 /\ J[i2][k2] = j2 THEN P[k1][k2] ELSE 0])]])

Flat(X)      == LET n == Len(X) IN F([r \in 1..(n * n) |-> X[((r - 1) \div n) + 1][((r - 1) % n) + 1]])
UnFlat(v, n) == F([i1 \in 1..n |-> [i2 \in 1..n |-> v[(i1 - 1) * n + i2]]])

\* ---- 2-D, implementation-shaped: pad -> full valid convolution -> trim for even m ------
Pad2(X, p, bc) ==
    LET n == Len(X)
        at(a) == Ext(ExtName(bc), a - 1 - p, n) + 1
    IN F([a \in 1..(n + 2 * p) |-> [b \in 1..(n + 2 * p) |->
          IF at(a) = 0 \/ at(b) = 0 THEN 0 ELSE X[at(a)][at(b)]]])

\* "valid" part of the full linear convolution of the padded image with P (no extension any more)
Valid2(Xp, P) ==
    LET N == Len(Xp)  m == Len(P)  s == N - m + 1
    IN F([a \in 1..s |-> [b \in 1..s |->
          ISum([q \in 1..(m * m) |->
                 LET k1 == ((q - 1) \div m) + 1  k2 == ((q - 1) % m) + 1
                 IN P[k1][k2] * Xp[a + m - k1][b + m - k2]])]])

TrimEven(V, m) ==
    IF m % 2 = 0 THEN F([a \in 1..(Len(V) - 1) |-> [b \in 1..(Len(V) - 1) |-> V[a + 1][b + 1]]]) ELSE V

PadValidTrim(P, X, bc) == TrimEven(Valid2(Pad2(X, Ctr(Len(P)), bc), P), Len(P))

\* ---- integer point-spread functions of the bounded instance ---------------------------
\* ramp: 1, 2, 3, ... (asymmetric);  quad: irregular with zeros;  sym: symmetric about the centre tap
\* (for even m the tap 0 has no partner inside the array and is 0);  zeros / ones: the all-zero PSF (an admissible custom
\* PSF that Python treats as false) and the constant PSF (every legacy PSF function with PSF_param = 0), used by TestProblems
Psf1(name, m) ==
    CASE name = "ramp" -> [k \in 1..m |-> k]
      [] name = "zeros" -> [k \in 1..m |-> 0]
      [] name = "ones"  -> [k \in 1..m |-> 1]
      [] name = "quad" -> [k \in 1..m |-> ((k - 1) * (k - 1) + 3 * (k - 1) + 1) % 7]
      [] name = "sym"  -> [k \in 1..m |-> LET cc == Ctr(m) + 1  p == 2 * cc - k
                                          IN IF p >= 1 /\ p <= m THEN 1 + Ctr(m) - IAbs(k - cc) ELSE 0]
      \* one-sided: 3, 2, 1 on the centre tap and the two taps after it, zeros elsewhere (used by TestProblems, legacy form)
      [] name = "oneside" -> [k \in 1..m |-> LET d == k - (Ctr(m) + 1) IN IF d >= 0 /\ d <= 2 THEN 3 - d ELSE 0]
Flip1(P) == [k \in 1..Len(P) |-> P[Len(P) + 1 - k]]

\* ramp: all taps distinct;  quad: irregular;  sym: outer product of the symmetric 1-D PSF with the ramp
\* (separable but not symmetric), used for the Kronecker invariant
Psf2(name, m) ==
    CASE name = "ramp" -> [k1 \in 1..m |-> [k2 \in 1..m |-> (k1 - 1) * m + k2]]
      [] name = "zeros" -> [k1 \in 1..m |-> [k2 \in 1..m |-> 0]]
      [] name = "quad" -> [k1 \in 1..m |-> [k2 \in 1..m |-> ((k1 - 1) * (k1 - 1) + 3 * (k2 - 1) + (k1 - 1) * (k2 - 1) + 1) % 7]]
      [] name = "sym"  -> [k1 \in 1..m |-> [k2 \in 1..m |-> Psf1("sym", m)[k1] * Psf1("ramp", m)[k2]]]

Configs ==
    { [pd |-> pd, n |-> n, m |-> m, bc |-> bc, psf |-> p] :
        pd \in {1, 2}, n \in 2..MaxN1, m \in 1..MaxM1, bc \in BCs1 \cup BCs2, p \in PSFs }

Valid(k) ==
    /\ (k.pd = 1 => k.bc \in BCs1)
    /\ (k.pd = 2 => k.bc \in BCs2 /\ k.n <= MaxN2 /\ k.m <= MaxM2)

Dim(k) == IF k.pd = 1 THEN k.n ELSE k.n * k.n
PsfOf(k) == IF k.pd = 1 THEN Psf1(k.psf, k.m) ELSE Psf2(k.psf, k.m)

\* the matrix of the intended design
Mat0(k) == IF k.pd = 1 THEN ConvMat1(Psf1(k.psf, k.m), k.n, k.bc) ELSE ConvMat2(Psf2(k.psf, k.m), k.n, k.bc)
\* the matrix the modelled implementation hands out
OpMat(k) == IF Deviation = "RowsInsteadOfColumns" THEN IT(Mat0(k)) ELSE Mat0(k)

\* ---- invariants --------------------------------------------------------------------------
\* column j of the matrix is the convolution of the unit signal e_j
ColumnsAreConv ==
    LET A == OpMat(c)  d == Dim(c)
    IN \A j \in 1..d :
         ICol(A, j) = IF c.pd = 1 THEN Conv1(Psf1(c.psf, c.m), EVec(d, j), c.bc)
                      ELSE Flat(Conv2(Psf2(c.psf, c.m), UnFlat(EVec(d, j), c.n), c.bc))

\* the matrix acts as the convolution on a fixed non-symmetric signal (linearity of the gather form)
TestSig(d) == [i \in 1..d |-> ((i * i) % 7) - 3]
MatrixActsAsConv ==
    LET A == OpMat(c)  d == Dim(c)  x == TestSig(d)
    IN IMV(A, x) = IF c.pd = 1 THEN Conv1(Psf1(c.psf, c.m), x, c.bc)
                   ELSE Flat(Conv2(Psf2(c.psf, c.m), UnFlat(x, c.n), c.bc))

\* periodic: circulant;  zero: Toeplitz   (1-D)
Circulant(M) == \A i \in 1..Len(M) : \A j \in 1..Len(M) : M[i][j] = M[1][Mod(j - i, Len(M)) + 1]
Toeplitz(M)  == \A i \in 1..(Len(M) - 1) : \A j \in 1..(Len(M) - 1) : M[i][j] = M[i + 1][j + 1]
PeriodicCirculant == (c.pd = 1 /\ c.bc = "periodic") => Circulant(Mat0(c))
ZeroToeplitz      == (c.pd = 1 /\ c.bc = "zero") => Toeplitz(Mat0(c))

\* a PSF symmetric about its centre tap gives a symmetric matrix under periodic and zero extension
SymPsfSymMatrix ==
    (c.pd = 1 /\ c.psf = "sym" /\ c.bc \in {"periodic", "zero"}) => LET A == Mat0(c) IN A = IT(A)

\* transposition = convolution with the flipped PSF: exactly for odd m; for even m the flipped PSF has its
\* centre one tap off, so the flipped-PSF operator is the transpose shifted by one sample (periodic)
FlipIsTranspose ==
    (c.pd = 1 /\ c.bc \in {"periodic", "zero"} /\ c.m % 2 = 1) =>
        ConvMat1(Flip1(Psf1(c.psf, c.m)), c.n, c.bc) = IT(Mat0(c))
FlipEvenIsShiftedTranspose ==
    (c.pd = 1 /\ c.bc = "periodic" /\ c.m % 2 = 0) =>
        LET B == ConvMat1(Flip1(Psf1(c.psf, c.m)), c.n, c.bc)  At == IT(Mat0(c))
        IN \A i \in 1..c.n : B[i] = At[Mod(i, c.n) + 1]

\* every extension except zero preserves constants: rows sum to the PSF sum
RowSums ==
    c.bc # "zero" =>
        LET A == Mat0(c)
            tot == IF c.pd = 1 THEN ISum(Psf1(c.psf, c.m)) ELSE ISum(Flat(Psf2(c.psf, c.m)))
        IN \A i \in 1..Dim(c) : ISum(A[i]) = tot

\* 2-D: a separable PSF gives the Kronecker product of the 1-D operators (row-major flattening)
Separable2D ==
    (c.pd = 2 /\ c.psf = "sym") =>
        Mat0(c) = IKron(ConvMat1(Psf1("sym", c.m), c.n, c.bc), ConvMat1(Psf1("ramp", c.m), c.n, c.bc))

\* 2-D: pad / valid / trim (the implementation's steps) compose to the index definition
PadValidTrimIsConv ==
    c.pd = 2 =>
        LET P == Psf2(c.psf, c.m)
            Imgs == {UnFlat(TestSig(c.n * c.n), c.n)} \cup {UnFlat(EVec(c.n * c.n, j), c.n) : j \in 1..(c.n * c.n)}
        IN \A X \in Imgs : PadValidTrim(P, X, c.bc) = Conv2(P, X, c.bc)

\* the deviation is visible exactly when the intended matrix is not symmetric (non-vacuity bookkeeping)
TransposeVisible(k) == LET A == Mat0(k) IN A # IT(A)

EmitCase ==
    Emit => PrintT("@@CASE " \o ToJson(
              [kind |-> IF c.pd = 1 THEN "conv1d" ELSE "conv2d", pd |-> c.pd, n |-> c.n, m |-> c.m, bc |-> c.bc,
               psfname |-> c.psf, psf |-> PsfOf(c), centre |-> Ctr(c.m), A |-> Mat0(c), J |-> J1(c.n, c.m, c.bc),
               transpose_visible |-> TransposeVisible(c)]) \o " @@END")

Init == c \in {k \in Configs : Valid(k)}
Next == UNCHANGED c
Spec == Init /\ [][Next]_c
=============================================================================
