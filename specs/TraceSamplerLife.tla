-------------------------- MODULE TraceSamplerLife --------------------------
(***************************************************************************)
(* Trace validation for SamplerLife: every recorded execution of a real    *)
(* stateful sampler must be a behaviour of the specification.              *)
(*                                                                         *)
(* The trace file (env TRACE_FILE) is a JSON array of traces; a trace is   *)
(*   [meta |-> ..., events |-> << event, ... >>]   with events             *)
(*   begin(op, n) | step(pid, win) | cb(idx, pid) | end(op, len) |          *)
(*   get(ids) | reinit | setstate(spid, pid) | sethist(len)                *)
(* recorded by harness/cuqiverif/record.py after each call returned.       *)
(* `pid` is the value id of the sampler's current point.                   *)
(*                                                                         *)
(* Grain of atomicity: the specification's Step is                         *)
(* Transition . Append . Callback; the implementation logs the transition  *)
(* (`step`) and the callback (`cb`) separately.  `step` inside a sampling  *)
(* window records the pending value id; `cb` is the specification's Step   *)
(* with the logged index and value id bound to it.  A `step` outside a     *)
(* window (direct use of sampler.step(), e.g. by HybridGibbs) is not an    *)
(* action of the specification: state unchanged.                           *)
(***************************************************************************)
EXTENDS SamplerLife, IOUtils

Traces == JsonDeserialize(IOEnv.TRACE_FILE)
AnyN   == 0..1000000        \* cfg: Sizes <- AnyN, Warm <- AnyN (recorded runs request arbitrary lengths)

VARIABLES tid,     \* which trace
          l,       \* position in the trace
          vhist,   \* value ids parallel to hist
          pend,    \* value id of the transition awaiting its callback (-1: none)
          tun      \* warm-up tuning bookkeeping (growth beyond C14): <<interval, inner steps completed in this window,
                   \*   tune already seen for the pending step, tune still owed for the step just recorded>>;
                   \*   interval = 0 outside a warm-up window.  The documentation fixes the frequency and the counter of the
                   \*   tune calls, not their place relative to the callback: both "before" and "after" are accepted.

tvars == <<vars, tid, l, vhist, pend, tun>>

Ev       == Traces[tid].events
IsEvent(e) == l <= Len(Ev) /\ Ev[l].e = e /\ l' = l + 1 /\ UNCHANGED tid

TraceInit == /\ Init /\ iface = "stateful"
             /\ tid \in 1..Len(Traces) /\ l = 1 /\ vhist = <<>> /\ pend = -1 /\ tun = <<0, 0, FALSE, FALSE>>

TBegin == /\ IsEvent("begin")
          /\ pend = -1
          /\ IF Ev[l].op = "sample" THEN BeginSample(Ev[l].n) ELSE BeginWarmup(Ev[l].n)
          /\ tun' = <<IF Ev[l].op = "warmup" THEN Ev[l].interval ELSE 0, 0, FALSE, FALSE>>
          /\ UNCHANGED <<vhist, pend>>

\* transition inside a window: remember its value id; outside: not a specification step
TStep == /\ IsEvent("step")
         /\ IF todo > 0 THEN pend = -1 /\ ~tun[4] /\ pend' = Ev[l].pid ELSE UNCHANGED pend
         /\ UNCHANGED <<vars, vhist, tun>>

\* tuning is due after inner step number tun[2]+1 of a warm-up window iff that number is a multiple of the interval
TuneDue == tun[1] > 0 /\ (tun[2] + 1) % tun[1] = 0

\* Append . Callback : the specification's Step, bound to the logged index and value id
TCb == /\ IsEvent("cb")
       /\ todo > 0 /\ pend >= 0
       /\ Step
       /\ Ev[l].idx = cb'[Len(cb')][2]           \* the chain index the specification predicts
       /\ Ev[l].pid = pend                        \* the state handed to the callback is the one the transition produced
       /\ vhist' = Append(vhist, pend)
       /\ pend' = -1
       \* warm-up: if tuning was due after this transition and has not happened yet it is owed before the next transition
       /\ tun' = <<tun[1], tun[2] + 1, FALSE, TuneDue /\ ~tun[3]>>

\* tune(skip_len, update_count) inside a warm-up window: only where due, once, with the documented arguments
\* (skip_len = interval, update_count = index of the step \div interval); elsewhere (direct calls, e.g. HybridGibbs
\* tuning its block samplers) it is not an action of this specification
TTune == /\ IsEvent("tune")
         /\ IF Ev[l].win = 1 /\ cur[1] = "warmup"
            THEN \/ /\ pend >= 0 /\ TuneDue /\ ~tun[3]                 \* between the transition and its callback
                    /\ Ev[l].skip = tun[1] /\ Ev[l].count = tun[2] \div tun[1]
                    /\ tun' = <<tun[1], tun[2], TRUE, FALSE>>
                 \/ /\ pend = -1 /\ tun[4]                              \* right after the callback of that transition
                    /\ Ev[l].skip = tun[1] /\ Ev[l].count = (tun[2] - 1) \div tun[1]
                    /\ tun' = <<tun[1], tun[2], FALSE, FALSE>>
            ELSE UNCHANGED tun
         /\ UNCHANGED <<vars, vhist, pend>>

TEnd == /\ IsEvent("end")
        /\ Idle /\ pend = -1
        /\ Ev[l].len = Len(hist)                  \* recorded length = everything requested
        /\ ~tun[4]
        /\ tun' = <<0, 0, FALSE, FALSE>>
        /\ UNCHANGED <<vars, vhist, pend>>

\* get_samples(): the recorded chain is exactly what was appended - no entry altered, none lost, none added
TGet == /\ IsEvent("get")
        /\ Ev[l].ids = vhist
        /\ UNCHANGED <<vars, vhist, pend, tun>>

TReinit == /\ IsEvent("reinit")
           /\ Reinit
           /\ vhist' = <<>> /\ UNCHANGED <<pend, tun>>

\* set_state(state): the point the sampler continues from is the point of the state that was handed in (0: not logged)
TSetState == /\ IsEvent("setstate")
             /\ Ev[l].pid = Ev[l].spid
             /\ UNCHANGED <<vars, vhist, pend, tun>>
TSetHist  == /\ IsEvent("sethist") /\ Ev[l].len = Len(hist) /\ UNCHANGED <<vars, vhist, pend, tun>>

TraceNext == TBegin \/ TStep \/ TCb \/ TTune \/ TEnd \/ TGet \/ TReinit \/ TSetState \/ TSetHist

TraceSpec == TraceInit /\ [][TraceNext]_tvars

\* one line per completely consumed trace; the harness requires every trace id to be reported
Accepted == (l = Len(Ev) + 1) => PrintT("@@CASE " \o ToJson([acc |-> tid]) \o " @@END")
\* diagnostic run of a single rejected trace: report progress
Progress == PrintT("@@CASE " \o ToJson([tid |-> tid, l |-> l]) \o " @@END")
=============================================================================
