--------------------------- MODULE ModelGeomForeign ---------------------------
(***************************************************************************)
(* Property C12, round 9: the CLASS (and the attributes) of the values that *)
(* travel through a model call (part FG).                                   *)
(*                                                                         *)
(* A CUQIarray is an ndarray SUBCLASS carrying is_par and a geometry; numpy *)
(* hands both on to every result that keeps the class (views, x itself,     *)
(* ufuncs, A @ x with A an ndarray: __array_finalize__).  So the OUTPUT of  *)
(* the user's operator can be a CUQIarray that still carries the flag and   *)
(* the geometry of the INPUT.  In every other facet of C12 the operators    *)
(* return fresh plain arrays (np.asarray) or the input carries the model's  *)
(* own geometry, so this never happened.                                    *)
(*                                                                         *)
(* Abstract value in flight: [v, cls, flag, geo].  Pipeline of forward /    *)
(* adjoint / gradient (Model._apply_func as documented):                    *)
(*    TwoFun  "if x is CUQIarray and geometry are consistent, we obtain      *)
(*            funvals directly; otherwise we use the geometry par2fun        *)
(*            method" (when the call says is_par)                           *)
(*    core    the user's operator; keeps the class of its argument or not    *)
(*    TwoPar  "if val is CUQIarray and geometry are consistent, we obtain    *)
(*            parameters directly; otherwise we use the geometry fun2par"    *)
(* forward: "converts the input to function values (if needed) using the    *)
(* domain geometry OF THE MODEL; converts the output function values to      *)
(* parameters using the range geometry of the model"; is_par=True: "the      *)
(* input is assumed to be parameters".  Hence for a CUQIarray of PARAMETERS  *)
(* that carries ANOTHER geometry (none given = default, Discrete, another    *)
(* grid, another map) the output is H+(F(G v)) with the MODEL's G and H+ -   *)
(* the value for the plain vector v.  The same for adjoint (range geometry   *)
(* in front, domain geometry behind) and for the direction of gradient.      *)
(*                                                                         *)
(* Free booleans (the invariant holds for every choice): kd / kr = par2fun   *)
(* of the geometry in front keeps the class of its argument (identity-like   *)
(* geometries return x itself, Image2D a view, MappedGeometry whatever the    *)
(* user's map returns; StepExpansion / KLExpansion allocate), eq / eqo = the *)
(* library's == calls the carried geometry equal to the geometry in front /  *)
(* behind (possible only between identity-like geometries: _DefaultGeometry  *)
(* == every Continuous1D on the same grid).                                  *)
(*                                                                         *)
(* Invariant  FgOneOutput   result = value for the plain parameter vector    *)
(* Deviation  OutputFlagTrusted  (TwoPar skips fun2par when the operator's   *)
(*            output is a CUQIarray flagged is_par) - refuted by TLC.        *)
(* Deviation  DefaultEqualsEveryGridGeometry  (the tree as built, finding     *)
(*            C12-F2: _DefaultGeometry1D.__eq__ accepts every Continuous1D    *)
(*            subclass on the same grid, so an output that still carries the  *)
(*            input's default geometry is "consistent" with a StepExpansion   *)
(*            behind the operator and its fun2par is skipped) - refuted.      *)
(* NOT modelled (undefined): a CUQIarray whose own flag contradicts the       *)
(* call's is_par; a carried geometry that equals the geometry BEHIND the      *)
(* operator while that one is not identity-like (see notes/C12.md).          *)
(***************************************************************************)
EXTENDS ModelGeom

CONSTANTS FgWide       \* TRUE: every carried geometry for every configuration

NoGeo == [kind |-> "none"]
Nd(v)          == [v |-> v, cls |-> "nd",   flag |-> TRUE, geo |-> NoGeo]
Cq(v, flag, g) == [v |-> v, cls |-> "cuqi", flag |-> flag, geo |-> g]
\* a map applied to a value in flight: the class (with flag and geometry) survives iff the map keeps the class of its argument
Through(x, newv, keeps) == IF keeps /\ x.cls = "cuqi" THEN [x EXCEPT !.v = newv] ELSE Nd(newv)

FgN == 4
FgPool == { g \in LinGeoms(FgN) : g.kind # "visual" /\ ~(g.kind = "step" /\ g.k = 2) }
             \cup { Geo("step", FgN, StepK(FgN, FALSE), 1, FgN, "max", StepAsg(FgN, FALSE)) }
IdLike(g) == g.kind \in {"cont1d", "default1d", "discrete"}

\* operators (all on 4 function values)
OpKinds == {"matmul", "sparse", "fkeep", "ffresh", "same", "view", "ufunc", "poly"}
FgKeeps(opk) == opk \notin {"sparse", "ffresh"}
RevM == [i \in 1..FgN |-> [j \in 1..FgN |-> IF j = (FgN + 1) - i THEN 1 ELSE 0]]
IdM  == [i \in 1..FgN |-> [j \in 1..FgN |-> IF j = i THEN 1 ELSE 0]]
TwoM == [i \in 1..FgN |-> [j \in 1..FgN |-> IF j = i THEN 2 ELSE 0]]
OpA(opk) == CASE opk = "same" -> IdM [] opk = "view" -> RevM [] opk = "ufunc" -> TwoM [] OTHER -> CoreF(1, FgN, FgN)
OpB(opk) == IF opk = "poly" THEN CoreB(1, FgN, FgN) ELSE [i \in 1..FgN |-> [j \in 1..FgN |-> 0]]
SqV(u) == F([i \in 1..Len(u) |-> RSq(u[i])])
FgFV(opk, u) == IF opk = "poly" THEN VAdd(MV(MR(OpA(opk)), u), MV(MR(OpB(opk)), SqV(u))) ELSE MV(MR(OpA(opk)), u)
FgAT(opk, u) == MV(MT(MR(OpA(opk))), u)

Calls == {"forward", "adjoint", "gradient"}
Gids  == <<"default", "discrete", "othergrid", "mapped2">>
GidNo(g) == CHOOSE i \in 1..4 : Gids[i] = g
KindNo(g) == CASE g.kind = "cont1d" -> 0 [] g.kind = "default1d" -> 1 [] g.kind = "discrete" -> 2 [] g.kind = "imgC" -> 3 [] g.kind = "imgF" -> 4
               [] g.kind = "cont2d" -> 5 [] g.kind = "step" -> (IF g.proj = "max" THEN 6 ELSE 7) [] g.kind = "mapped" -> 8 [] OTHER -> 9
OpNo(o) == CASE o = "matmul" -> 0 [] o = "sparse" -> 1 [] o = "fkeep" -> 2 [] o = "ffresh" -> 3 [] o = "same" -> 4 [] o = "view" -> 5 [] o = "ufunc" -> 6 [] OTHER -> 7

InG(k)  == IF k.call = "forward" THEN k.dg ELSE k.rg           \* geometry in front of the operator
OutG(k) == IF k.call = "forward" THEN k.rg ELSE k.dg           \* geometry behind it
\* the geometry the input carries: of the parameter dimension of the geometry in front, never the model's own record
Carried(k) == [kind |-> k.gid, n |-> InG(k).k, k |-> InG(k).k, foreign |-> TRUE]

FgConfigs == { [part |-> "FG", opk |-> o, dg |-> dg, rg |-> rg, call |-> cl, gid |-> gid, kd |-> kd, eq |-> eq, eqo |-> eqo] :
                 o \in OpKinds, dg \in FgPool, rg \in FgPool, cl \in Calls, gid \in {Gids[i] : i \in 1..4}, kd \in BOOLEAN, eq \in BOOLEAN, eqo \in BOOLEAN }
FgValid(k) == /\ (k.opk \in {"matmul", "sparse"} => (VecFun(k.dg) /\ VecFun(k.rg)))
              /\ (k.opk \in {"same", "view", "ufunc"} => (VecFun(k.dg) <=> VecFun(k.rg)))
              /\ (k.call # "forward" => k.opk # "poly")
              /\ (k.call = "gradient" => (IdType(k.dg) /\ IdType(k.rg)))           \* where the gradient is not refused
              /\ (k.eq  => (IdLike(InG(k))  /\ k.gid # "mapped2"))
              /\ (k.eqo => \/ (IdLike(OutG(k)) /\ k.gid # "mapped2" /\ OutG(k).k = InG(k).k)
                            \* the tree as built (finding C12-F2): a DEFAULT geometry compares equal to every Continuous1D SUBCLASS on the grid 0..n-1,
                            \* whatever its par2fun (StepExpansion, KLExpansion, CustomKL): the typed route then uses the maps of the ARRAY's geometry
                            \/ ("DefaultEqualsEveryGridGeometry" \in Dev /\ k.gid = "default" /\ OutG(k).kind = "step" /\ OutG(k).n = InG(k).k))
              /\ (FgWide \/ GidNo(k.gid) = ((KindNo(k.dg) + (3 * KindNo(k.rg)) + OpNo(k.opk) + (IF k.call = "forward" THEN 0 ELSE 1)) % 4) + 1)

\* ---- the pipeline -----------------------------------------------------------------------------------------------
\* typed routes: the array's OWN flag and geometry (reached only when the library calls the geometries equal: then both are identity-like)
FunvalsOf(x, g)    == Cq(x.v, FALSE, x.geo)        \* x.funvals: par2fun of an identity-like geometry on a vector of parameters
TwoFun(x, g, isPar, keepsG, equal) ==
    IF x.cls = "cuqi" /\ equal THEN FunvalsOf(x, g)
    ELSE IF isPar THEN Through(x, P2FV(g, x.v), keepsG) ELSE x
TwoPar(y, g, isPar, equal) ==
    IF y.cls = "cuqi" /\ equal THEN y.v          \* y.parameters: fun2par of the ARRAY's geometry (identity-like) where the flag says function values
    ELSE IF "OutputFlagTrusted" \in Dev /\ y.cls = "cuqi" /\ y.flag THEN y.v           \* the deviation: the stale flag of the INPUT is trusted
    ELSE IF ~isPar THEN F2PV(g, y.v) ELSE y.v

FgIn(k) == VR(IVecA(InG(k).k, 1 + GidNo(k.gid)))
FgResult(k) ==
    LET x  == Cq(FgIn(k), TRUE, Carried(k))
        xf == TwoFun(x, InG(k), TRUE, k.kd, k.eq)
        y  == Through(xf, IF k.call = "forward" THEN FgFV(k.opk, xf.v) ELSE FgAT(k.opk, xf.v), FgKeeps(k.opk))
    IN TwoPar(y, OutG(k), FALSE, k.eqo /\ y.cls = "cuqi")
\* the value for the PLAIN parameter vector: H+(F(G v)) / G+(F*(H y))
FgExpected(k) == IF k.call = "forward" THEN F2PV(k.rg, FgFV(k.opk, P2FV(k.dg, FgIn(k))))
                 ELSE F2PV(k.dg, FgAT(k.opk, P2FV(k.rg, FgIn(k))))

FgInit == c \in {k \in FgConfigs : FgValid(k)}
FgNext == UNCHANGED c

FgOneOutput == FgResult(c) = FgExpected(c)
FgEmit == (Emit /\ c.kd /\ ~c.eq /\ ~c.eqo) =>
            PrintT("@@CASE " \o ToJson([kind |-> "fg", opk |-> c.opk, dg |-> c.dg, rg |-> c.rg, call |-> c.call, gid |-> c.gid,
                                         A |-> OpA(c.opk), B |-> OpB(c.opk), v |-> IVecA(InG(c).k, 1 + GidNo(c.gid)),
                                         fun |-> P2FV(InG(c), FgIn(c)), out |-> FgExpected(c),
                                         pre |-> (IF c.call = "forward" THEN FgFV(c.opk, P2FV(c.dg, FgIn(c))) ELSE FgAT(c.opk, P2FV(c.rg, FgIn(c)))),
                                         Gd |-> (IF Linear(c.dg) THEN GM(c.dg) ELSE <<>>), Gpd |-> (IF F2PLinear(c.dg) THEN GpM(c.dg) ELSE <<>>),
                                         Hr |-> (IF Linear(c.rg) THEN GM(c.rg) ELSE <<>>), Hpr |-> (IF F2PLinear(c.rg) THEN GpM(c.rg) ELSE <<>>)]) \o " @@END")
=============================================================================
