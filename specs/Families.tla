------------------------------ MODULE Families ------------------------------
(***************************************************************************)
(* Documented log-densities, cdfs and gradients of the distribution        *)
(* families of cuqi.distribution (properties C04 and C03; used by C05).    *)
(*                                                                         *)
(* For every family the module contains                                    *)
(*   - the DOCUMENTED log-density (class docstring) as an exact symbolic-  *)
(*     log expression (module SymLog) of parameters and evaluation point,  *)
(*   - its gradient DERIVED BY HAND from that formula (rational vectors),  *)
(*   - the support, and where a closed form exists the cdf,                *)
(* evaluated on lattices chosen so that everything stays exact: dyadic     *)
(* standard deviations, unit-triangular integer factors, integer Gamma     *)
(* shapes (log Gamma(n) = sum log i), scale^2 + distance^2 with prime      *)
(* factors <= 13, perfect squares under the SmoothedLaplace root, powers   *)
(* of two as Lognormal points with parameters in units of log 2.           *)
(*                                                                         *)
(* A state is one configuration; TLC enumerates the bounded lattice,       *)
(* checks on every configuration                                           *)
(*   SameDistribution  all Gaussian input forms (cov/prec/sqrtcov/sqrtprec *)
(*                     x scalar/vector/diag/dense/sparse) generated from   *)
(*                     one unit-triangular integer factor and one dyadic   *)
(*                     diagonal have the same <<mean, prec, logdet, rank>> *)
(*   ScalingLaw        scaling the covariance by a = 4^e (cov' = a cov,     *)
(*                     prec' = prec/a, sqrtcov' = 2^e sqrtcov, sqrtprec' =  *)
(*                     sqrtprec/2^e) and the deviation by 2^e gives, for    *)
(*                     EVERY input form, logpdf' = logpdf - dim e log 2 and *)
(*                     gradient' = gradient / 2^e  (checked exactly for     *)
(*                     e = -1, 1; the emitted cases carry the expected      *)
(*                     values for e = -30, 30 - magnitudes 1e-18 .. 1e18)   *)
(*   QuadIdentity      logd(x+h) - logd(x-h) = 2 h.grad(x)  (quadratic     *)
(*                     families: spec gradient consistent with spec        *)
(*                     density)                                            *)
(*   Unnormalised      logpdf - kernel is independent of x                 *)
(*   NaNOutside        gradient NaN-flag exactly outside the support,      *)
(*                     log-density -inf exactly there                      *)
(*   OutcomeTable      GradOutcome(family, conditional, geometry, FD) is   *)
(*                     total and encodes "refused where not available"     *)
(*   ExpansionChain    likelihood through a model whose domain geometry is *)
(*                     a linear EXPANSION u = E p (step / KL expansions:   *)
(*                     subclasses of an identity-like geometry class that  *)
(*                     offer no derivative): the derivative with respect   *)
(*                     to the parameters is E^T gradient_fun - refused or  *)
(*                     that vector, never gradient_fun itself              *)
(* and emits one @@CASE line per configuration with the exact expected     *)
(* values for the conformance replay.                                      *)
(*                                                                         *)
(* Conventions (code + tests/test_distribution.py): sqrtprec R => prec =   *)
(* R^T R;  sqrtcov S => cov = S S^T.  The class docstring writes           *)
(* "R^T R = cov" for sqrtcov; the named deviation SqrtcovDocConvention     *)
(* switches to that reading and makes SameDistribution fail (it is a       *)
(* documentation discrepancy, not asserted against the code).              *)
(***************************************************************************)
EXTENDS Mat, SymLog, FiniteSets, Json

CONSTANTS MaxDim,                \* largest dimension of the generic families (3)
          Thorough,              \* TRUE: wider lattices
          Emit,                  \* TRUE: print one @@CASE line per configuration
          Fams,                  \* families enumerated in this run
          SqrtcovDocConvention   \* named deviation (see above); FALSE in the deciding configurations

VARIABLE c                       \* configuration record

DO == INSTANCE DiffOps WITH c <- c, MaxN1 <- 5, MaxN2 <- 2, Emit <- FALSE

\* ---------------------------------------------------------------------------
\* generic helpers
\* ---------------------------------------------------------------------------
\* pattern k of lattice L in dimension d: k <= Len(L) constant vectors, beyond that cyclic walks through L
Pat(L, d, k) == F([i \in 1..d |-> IF k <= Len(L) THEN L[k] ELSE L[((i + k - Len(L) - 2) % Len(L)) + 1]])
NPat(L, d)   == IF d = 1 THEN Len(L) ELSE IF d = 3 /\ Thorough THEN Len(L) + 2 ELSE Len(L) + 1
PatIdx(L, d, nq) == IF Thorough THEN 1..NPat(L, d)
                    ELSE (1..nq) \cup (IF d = 1 THEN {} ELSE {Len(L) + 1})
IsConstV(v)  == \A i \in 1..Len(v) : v[i] = v[1]
VMulE(u, v)  == F([i \in 1..Len(u) |-> RMul(u[i], v[i])])
VDivE(u, v)  == F([i \in 1..Len(u) |-> RDiv(u[i], v[i])])
VSet(v, i, q) == F([j \in 1..Len(v) |-> IF j = i THEN q ELSE v[j]])
AllV(v, P(_)) == \A i \in 1..Len(v) : P(v[i])
RPos(q)      == q[1] > 0
RSign(q)     == IF q[1] > 0 THEN One ELSE IF q[1] < 0 THEN R(-1) ELSE Zero

ISqrt(n)     == CHOOSE k \in 0..n : k * k = n
IsSquare(n)  == \E k \in 0..n : k * k = n
RIsSquare(q) == q[1] >= 0 /\ IsSquare(q[1]) /\ IsSquare(q[2])
RSqrt(q)     == Q(ISqrt(q[1]), ISqrt(q[2]))

RECURSIVE Fact(_)
Fact(n) == IF n <= 1 THEN 1 ELSE n * Fact(n - 1)
Binom(n, k) == Fact(n) \div (Fact(k) * Fact(n - k))
RECURSIVE Pow2(_)
Pow2(k) == IF k = 0 THEN One ELSE IF k > 0 THEN RMul(R(2), Pow2(k - 1)) ELSE RMul(Half, Pow2(k + 1))
\* sum_{k<n} t^k / k!
RECURSIVE ExpPoly(_, _)
ExpPoly(t, n) == IF n = 0 THEN Zero ELSE RAdd(ExpPoly(t, n - 1), RDiv(RPow(t, n - 1), R(Fact(n - 1))))

RECURSIVE AscSeq(_)
AscSeq(S) == IF S = {} THEN <<>> ELSE LET m == CHOOSE x \in S : \A y \in S : x <= y IN <<m>> \o AscSeq(S \ {m})
SubMat(A, idx) == F([i \in 1..Len(idx) |-> [j \in 1..Len(idx) |-> A[idx[i]][idx[j]]]])
\* pseudo-determinant of a symmetric PSD matrix of rank r = sum of the principal r x r minors
RECURSIVE SetToSeq(_)
SetToSeq(S) == IF S = {} THEN <<>> ELSE LET m == CHOOSE x \in S : TRUE IN <<m>> \o SetToSeq(S \ {m})
PDet(A, r) == IF r = 0 THEN One
              ELSE LET subs == SetToSeq({T \in SUBSET (1..Len(A)) : Cardinality(T) = r})
                   IN RSumSeq([i \in 1..Len(subs) |-> Det(SubMat(A, AscSeq(subs[i])))])

Quad(P, v)   == Dot(v, MV(P, v))
\* balanced sum of a rational sequence (long vectors: recursion depth log n)
RECURSIVE RSumR(_, _, _)
RSumR(s, lo, hi) == IF lo > hi THEN Zero ELSE IF lo = hi THEN s[lo]
                    ELSE LET mid == (lo + hi) \div 2 IN RAdd(RSumR(s, lo, mid), RSumR(s, mid + 1, hi))
RSumB(seq)   == LET s == F(seq) IN RSumR(s, 1, Len(s))
NegInf       == [neginf |-> TRUE,  v |-> SLZero]
Fin(s)       == [neginf |-> FALSE, v |-> s]
NoGradV      == [nan |-> FALSE, v |-> <<>>]
NaNGrad(d)   == [nan |-> TRUE,  v |-> VZero(d)]
FinGrad(g)   == [nan |-> FALSE, v |-> g]
NoCdf        == [form |-> "none"]

\* ---------------------------------------------------------------------------
\* lattices
\* ---------------------------------------------------------------------------
LLoc   == <<Zero, One, Q(-3, 2)>>            \* locations / means (non-zero included)
LStd   == <<One, Half, R(4), R(3)>>          \* standard deviations / scales
LOff   == <<Half, R(-1), R(2), Zero>>        \* evaluation offsets x - location
LLam   == <<One, R(2), Half>>                \* diagonal of the square-root precision
LInt   == <<R(1), R(-1), R(2), Zero>>        \* integer offsets (MRF fields)
LShape == <<R(1), R(2), R(3)>>               \* integer Gamma-type shapes
LRate  == <<One, Half, R(3)>>
LPosX  == <<One, Half, R(2), R(3)>>          \* positive evaluation offsets
LUnit  == <<Half, Q(1, 4), Q(2, 3), Q(1, 3)>> \* points of the unit interval
LCauU  == <<Zero, One, R(-1), R(2), R(3), R(-7)>>   \* (x - loc)/scale with 1 + u^2 in {1, 2, 5, 10, 50}
LSL1   == <<Zero, Q(3, 4), Q(-4, 3), Q(12, 5)>>     \* t with t^2 + 1 a perfect square
LK     == <<R(1), Zero, R(-1), R(2)>>        \* exponents: Lognormal points 2^k
LMu    == <<Zero, One, Q(-1, 2)>>            \* Lognormal means in units of log 2

\* unit upper-triangular integer factors
UT(d, k) ==
    CASE d = 1 -> <<<<1>>>>
      [] d = 2 -> (CASE k = 1 -> <<<<1, 0>>, <<0, 1>>>> [] k = 2 -> <<<<1, 2>>, <<0, 1>>>> [] OTHER -> <<<<1, -1>>, <<0, 1>>>>)
      [] d = 3 -> (CASE k = 1 -> <<<<1, 0, 0>>, <<0, 1, 0>>, <<0, 0, 1>>>>
                     [] k = 2 -> <<<<1, 2, -1>>, <<0, 1, 3>>, <<0, 0, 1>>>>
                     [] OTHER -> <<<<1, 0, 1>>, <<0, 1, -2>>, <<0, 0, 1>>>>)
NUT(d) == IF d = 1 THEN 1 ELSE IF Thorough THEN 3 ELSE 2

\* ---------------------------------------------------------------------------
\* Gaussian: canonical form of every input form
\* ---------------------------------------------------------------------------
Forms  == <<"cov", "prec", "sqrtcov", "sqrtprec">>
Shapes == <<"scalar", "vector", "diag", "dense", "sparse">>

\* W = Lambda U is the square-root precision; all other inputs are generated from it
SqrtPrecOf(d, uk, lam) == LET U == MR(UT(d, uk)) IN F([i \in 1..d |-> VScale(lam[i], U[i])])
FormMatrix(form, W) ==
    CASE form = "sqrtprec" -> W
      [] form = "prec"     -> MM(MT(W), W)
      [] form = "sqrtcov"  -> MInv(W)
      [] form = "cov"      -> LET S == MInv(W) IN MM(S, MT(S))
MDiagOf(M) == F([i \in 1..Len(M) |-> M[i][i]])
IsDiagM(M) == \A i, j \in 1..Len(M) : i # j => M[i][j] = Zero
ShapeOK(shape, M) ==
    CASE shape \in {"dense", "sparse"} -> TRUE
      [] shape \in {"vector", "diag"}  -> IsDiagM(M)
      [] shape = "scalar"              -> IsDiagM(M) /\ IsConstV(MDiagOf(M))
InputData(shape, M) == CASE shape = "scalar" -> M[1][1] [] shape = "vector" -> MDiagOf(M) [] OTHER -> M
Expand(shape, data, d) ==
    CASE shape = "scalar" -> MDiag([i \in 1..d |-> data]) [] shape = "vector" -> MDiag(data) [] OTHER -> data
\* canonical <<prec, logdet of the covariance, rank>> denoted by an input matrix of a given form
Canon(form, M) ==
    CASE form = "cov"      -> <<MInv(M), SLLog(Det(M)), Rank(M)>>
      [] form = "prec"     -> <<M, SLNeg(SLLog(Det(M))), Rank(M)>>
      [] form = "sqrtcov"  -> LET C == IF SqrtcovDocConvention THEN MM(MT(M), M) ELSE MM(M, MT(M))
                              IN <<MInv(C), SLLog(Det(C)), Rank(C)>>
      [] form = "sqrtprec" -> LET P == MM(MT(M), M) IN <<P, SLNeg(SLLog(Det(P))), Rank(P)>>

GaussInputs(d, W) ==
    LET all == {<<f, s>> : f \in {Forms[i] : i \in 1..4}, s \in {Shapes[i] : i \in 1..5}}
    IN {fs \in all : ShapeOK(fs[2], FormMatrix(fs[1], W))}

SameDistribution ==
    c.fam = "Gaussian" =>
      LET d == c.dim
          W == SqrtPrecOf(d, c.b, Pat(LLam, d, c.g))
          ref == Canon("sqrtprec", W)
      IN \A fs \in GaussInputs(d, W) :
           Canon(fs[1], Expand(fs[2], InputData(fs[2], FormMatrix(fs[1], W)), d)) = ref

GaussLogpdf(mean, cn, x) ==
    LET dev == VSub(x, mean)
    IN SLAdd(SLScale(Q(-1, 2), SLAdd(SLScale(R(cn[3]), SLLog2Pi), cn[2])), SLConst(RMul(Q(-1, 2), Quad(cn[1], dev))))
GaussKernel(mean, cn, x) == SLConst(RMul(Q(-1, 2), Quad(cn[1], VSub(x, mean))))
GaussGrad(mean, cn, x) == VScale(R(-1), MV(cn[1], VSub(x, mean)))

\* ---------------------------------------------------------------------------
\* Gaussian: scaling law.  The documented density N(mean, cov) has no preferred magnitude: with a = 4^e,
\*     cov' = a cov,  prec' = prec / a,  sqrtcov' = 2^e sqrtcov,  sqrtprec' = sqrtprec / 2^e,  x' = mean + 2^e (x - mean)
\* denote, for every input form and shape, the distribution with
\*     logpdf'(x') = logpdf(x) - (dim / 2) log a = logpdf(x) - dim e log 2,        gradient'(x') = gradient(x) / 2^e.
\* ScalingLaw checks this identity with exact arithmetic for the exponents of ScaleExpsChecked on every input form of every
\* configuration (Canon of the scaled input, density and gradient at the scaled point); the emitted cases carry the expected
\* values of the law for the exponents of ScaleExpsEmitted (a = 4^-30 ~ 8.7e-19 and 4^30 ~ 1.2e18: off-diagonal entries far
\* below / diagonal entries far above any absolute tolerance).  Powers of two keep the real inputs exact in binary floating
\* point, so the replay compares at the same tolerance as for the unscaled instance.
ScaleExpsChecked == {-1, 1}
ScaleExpsEmitted == <<-30, 30>>
FormScale(form, e) ==          \* factor of the input matrix of a form when the covariance is scaled by 4^e
    CASE form = "cov" -> Pow2(2 * e) [] form = "prec" -> Pow2(-(2 * e)) [] form = "sqrtcov" -> Pow2(e) [] form = "sqrtprec" -> Pow2(-e)
FormScalePow2(form, e) ==      \* the same factor as an exponent of two (what the cases carry: 2^60 is not a TLC integer)
    CASE form = "cov" -> 2 * e [] form = "prec" -> -(2 * e) [] form = "sqrtcov" -> e [] form = "sqrtprec" -> -e
ScaledPoint(mean, x, e) == VAdd(mean, VScale(Pow2(e), VSub(x, mean)))
ScaledLogpdf(lp, d, e)  == SLSub(lp, SLAtom("log2", R(d * e)))
ScaledGrad(g, e)        == VScale(Pow2(-e), g)
ScalingLaw ==
    c.fam = "Gaussian" =>
      LET d == c.dim
          m == Pat(LLoc, d, c.a)
          W == SqrtPrecOf(d, c.b, Pat(LLam, d, c.g))
          cn == Canon("sqrtprec", W)
          x == VAdd(m, Pat(LOff, d, c.x))
          lp == GaussLogpdf(m, cn, x)
          gr == GaussGrad(m, cn, x)
      IN \A e \in ScaleExpsChecked :
           LET xs == ScaledPoint(m, x, e)
           IN \A fs \in GaussInputs(d, W) :
                LET Ms == MScale(FormScale(fs[1], e), Expand(fs[2], InputData(fs[2], FormMatrix(fs[1], W)), d))
                    cs == Canon(fs[1], Ms)
                IN /\ cs[1] = MScale(Pow2(-(2 * e)), cn[1]) /\ cs[3] = cn[3]
                   /\ GaussLogpdf(m, cs, xs) = ScaledLogpdf(lp, d, e)
                   /\ GaussGrad(m, cs, xs) = ScaledGrad(gr, e)

\* ---------------------------------------------------------------------------
\* per-family documented log-density, support, gradient, cdf
\* every operator takes parameter VECTORS of length dim (a scalar parameter is the constant vector)
\* ---------------------------------------------------------------------------
\* Normal(mean, std): iid  N(mean_i, std_i^2)
NormalLogpdf(m, s, x) ==
    SLSum([i \in 1..Len(x) |-> SLAdd(SLAdd(SLNeg(SLLog(s[i])), SLScale(Q(-1, 2), SLLog2Pi)),
                                     SLConst(RMul(Q(-1, 2), RSq(RDiv(RSub(x[i], m[i]), s[i])))))])
NormalGrad(m, s, x) == F([i \in 1..Len(x) |-> RNeg(RDiv(RSub(x[i], m[i]), RSq(s[i])))])

\* Laplace(location, scale b):  prod 1/(2b) exp(-|x - mu|/b)
LaplaceLogpdf(mu, b, x) ==
    SLSum([i \in 1..Len(x) |-> SLAdd(SLNeg(SLAdd(SLAtom("log2", One), SLLog(b[i]))),
                                     SLConst(RNeg(RDiv(RAbs(RSub(x[i], mu[i])), b[i]))))])
LaplaceGrad(mu, b, x) == F([i \in 1..Len(x) |-> RNeg(RDiv(RSign(RSub(x[i], mu[i])), b[i]))])

\* SmoothedLaplace(location, scale b, beta):  prod 1/(2b) exp(-sqrt((x-mu)^2 + beta)/b)
SLapRoot(mu, beta, x, i) == RSqrt(RAdd(RSq(RSub(x[i], mu[i])), beta))
SLapLogpdf(mu, b, beta, x) ==
    SLSum([i \in 1..Len(x) |-> SLAdd(SLNeg(SLAdd(SLAtom("log2", One), SLLog(b[i]))),
                                     SLConst(RNeg(RDiv(SLapRoot(mu, beta, x, i), b[i]))))])
SLapGrad(mu, b, beta, x) ==
    F([i \in 1..Len(x) |-> RNeg(RDiv(RSub(x[i], mu[i]), RMul(b[i], SLapRoot(mu, beta, x, i))))])

\* Cauchy(location, scale):  prod 1 / (pi gamma (1 + ((x-mu)/gamma)^2))  =  prod gamma / (pi (gamma^2 + (x-mu)^2))
CauchyTerm(gam, t) == SLSub(SLSub(SLLog(gam), SLLogPi), SLLog(RAdd(RSq(gam), RSq(t))))
CauchyLogpdf(mu, gam, x) == SLSum([i \in 1..Len(x) |-> CauchyTerm(gam[i], RSub(x[i], mu[i]))])
CauchyGrad(mu, gam, x) ==
    F([i \in 1..Len(x) |-> LET t == RSub(x[i], mu[i]) IN RDiv(RMul(R(-2), t), RAdd(RSq(gam[i]), RSq(t)))])
CauchyCdfRational(mu, gam, x) == \A i \in 1..Len(x) : RAbs(RSub(x[i], mu[i])) \in {Zero, gam[i]}
CauchyCdf(mu, gam, x) ==       \* 1/2 + atan(u)/pi at u in {0, 1, -1};  independent components multiply
    RProdSeq([i \in 1..Len(x) |-> LET t == RSub(x[i], mu[i])
                                  IN IF t = Zero THEN Half ELSE IF RPos(t) THEN Q(3, 4) ELSE Q(1, 4)])

\* Gamma(shape a, rate b):  prod b^a x^(a-1) exp(-b x) / Gamma(a),  x > 0
GammaLogpdf(a, b, x) ==
    SLSum([i \in 1..Len(x) |-> SLAdd(SLAdd(SLScale(a[i], SLLog(b[i])), SLScale(RSub(a[i], One), SLLog(x[i]))),
                                     SLSub(SLConst(RNeg(RMul(b[i], x[i]))), SLLogGamma(a[i][1])))])
GammaGrad(a, b, x) == F([i \in 1..Len(x) |-> RSub(RDiv(RSub(a[i], One), x[i]), b[i])])
\* cdf component  aa + p exp(-t):  1 - exp(-bx) sum_{k<a} (bx)^k/k!
GammaCdf(a, b, x) ==
    F([i \in 1..Len(x) |-> IF RPos(x[i]) THEN LET t == RMul(b[i], x[i]) IN <<One, RNeg(ExpPoly(t, a[i][1])), t>>
                           ELSE <<Zero, Zero, Zero>>])

\* InverseGamma(shape a, location l, scale g):  (x-l)^(-a-1) exp(-g/(x-l)) g^a / Gamma(a),  x > l
InvGammaLogpdf(a, l, g, x) ==
    SLSum([i \in 1..Len(x) |-> LET t == RSub(x[i], l[i])
                               IN SLAdd(SLAdd(SLScale(a[i], SLLog(g[i])), SLScale(RNeg(RAdd(a[i], One)), SLLog(t))),
                                        SLSub(SLConst(RNeg(RDiv(g[i], t))), SLLogGamma(a[i][1])))])
InvGammaGrad(a, l, g, x) ==
    F([i \in 1..Len(x) |-> LET t == RSub(x[i], l[i])
                           IN RAdd(RDiv(RNeg(RAdd(a[i], One)), t), RDiv(g[i], RSq(t)))])
InvGammaCdf(a, l, g, x) ==     \* Q(a, g/(x-l)) = exp(-t) sum_{k<a} t^k/k!
    F([i \in 1..Len(x) |-> LET t == RSub(x[i], l[i])
                           IN IF RPos(t) THEN LET u == RDiv(g[i], t) IN <<Zero, ExpPoly(u, a[i][1]), u>>
                              ELSE <<Zero, Zero, Zero>>])

\* Beta(alpha, beta):  x^(a-1) (1-x)^(b-1) Gamma(a+b) / (Gamma(a) Gamma(b)),  0 < x < 1
BetaLogpdf(a, b, x) ==
    SLSum([i \in 1..Len(x) |->
        SLAdd(SLAdd(SLScale(RSub(a[i], One), SLLog(x[i])), SLScale(RSub(b[i], One), SLLog(RSub(One, x[i])))),
              SLSub(SLLogGamma(a[i][1] + b[i][1]), SLAdd(SLLogGamma(a[i][1]), SLLogGamma(b[i][1]))))])
BetaGrad(a, b, x) ==
    F([i \in 1..Len(x) |-> RSub(RDiv(RSub(a[i], One), x[i]), RDiv(RSub(b[i], One), RSub(One, x[i])))])
\* regularised incomplete beta function for integer shapes: sum_{j=a}^{n} C(n,j) x^j (1-x)^(n-j), n = a+b-1
BetaCdf1(a, b, x) ==
    IF ~RPos(x) THEN Zero ELSE IF RLe(One, x) THEN One
    ELSE LET n == a + b - 1
         IN RSumSeq([j \in 1..(n - a + 1) |-> LET jj == a + j - 1
                     IN RMul(R(Binom(n, jj)), RMul(RPow(x, jj), RPow(RSub(One, x), n - jj)))])
BetaCdf(a, b, x) == RProdSeq([i \in 1..Len(x) |-> BetaCdf1(a[i][1], b[i][1], x[i])])

\* Uniform(low, high):  1 / prod (high - low) on the box
UniformLogpdf(lo, hi, x) == SLNeg(SLSum([i \in 1..Len(x) |-> SLLog(RSub(hi[i], lo[i]))]))

\* ModifiedHalfNormal(alpha, beta, gamma), un-normalised as documented:  x^(a-1) exp(-b x^2 + g x),  x > 0
MHNLogpdf(a, b, g, x) ==
    SLSum([i \in 1..Len(x) |-> SLAdd(SLScale(RSub(a[i], One), SLLog(x[i])),
                                     SLConst(RAdd(RNeg(RMul(b[i], RSq(x[i]))), RMul(g[i], x[i]))))])
MHNGrad(a, b, g, x) ==
    F([i \in 1..Len(x) |-> RAdd(RSub(RDiv(RSub(a[i], One), x[i]), RMul(R(2), RMul(b[i], x[i]))), g[i])])

\* ---------------------------------------------------------------------------
\* Markov random fields on the operators of DiffOps
\* ---------------------------------------------------------------------------
MrfDim(pd, n) == IF pd = 1 THEN n ELSE n * n
\* integer difference operator; order 0 = the operator `none` of DiffOps (identity in 1-D; in 2-D the identity stacked once per
\* direction, "differences are defined in both horizontal and vertical directions", i.e. precision 2 delta I - as in C20)
MrfD(pd, n, bc, ord, wm) ==
    IF ord = 0 THEN DO!DOp([pd |-> pd, n |-> n, bc |-> "none", order |-> 1, wm |-> 1])
    ELSE DO!DOp([pd |-> pd, n |-> n, bc |-> bc, order |-> ord, wm |-> wm])
MrfNullity(pd, n, bc, ord, wm) ==
    IF ord = 0 THEN 0 ELSE Len(DO!NullBasis([pd |-> pd, n |-> n, bc |-> bc, order |-> ord, wm |-> wm]))
MrfValid(pd, n, bc, ord, wm) ==
    /\ (bc # "periodic" => wm = 1)
    /\ IF ord = 0 THEN n >= 2 /\ wm = 1
       ELSE DO!Valid([pd |-> pd, n |-> n, bc |-> bc, order |-> ord, wm |-> wm]) /\ n >= 2

\* GMRF(mean, prec delta):  Gaussian with precision delta D^T D, normalised on the range of D^T D
GmrfLogpdf(P, rank, pdet, delta, m, x) ==
    SLAdd(SLAdd(SLScale(Q(rank, 2), SLSub(SLLog(delta), SLLog2Pi)), SLScale(Half, SLLog(pdet))),
          SLConst(RMul(Q(-1, 2), RMul(delta, Quad(P, VSub(x, m))))))
GmrfGrad(P, delta, m, x) == VScale(RNeg(delta), MV(P, VSub(x, m)))

\* LMRF(location, scale b): each difference (D(x - location))_j ~ Laplace(0, b)
LmrfLogpdf(D, b, loc, x) ==
    LET dx == MV(D, VSub(x, loc))
    IN SLAdd(SLScale(R(Len(D)), SLNeg(SLAdd(SLAtom("log2", One), SLLog(b)))),
             SLConst(RNeg(RDiv(RSumSeq([j \in 1..Len(dx) |-> RAbs(dx[j])]), b))))
LmrfGrad(D, b, loc, x) ==
    LET dx == MV(D, VSub(x, loc)) IN MV(MT(D), F([j \in 1..Len(dx) |-> RNeg(RDiv(RSign(dx[j]), b))]))
\* CMRF(location, scale gamma): each difference ~ Cauchy(0, gamma)
CmrfLogpdf(D, gam, loc, x) ==
    LET dx == MV(D, VSub(x, loc)) IN SLSum([j \in 1..Len(dx) |-> CauchyTerm(gam, dx[j])])
CmrfGrad(D, gam, loc, x) ==
    LET dx == MV(D, VSub(x, loc))
    IN MV(MT(D), F([j \in 1..Len(dx) |-> RDiv(RMul(R(-2), dx[j]), RAdd(RSq(gam), RSq(dx[j])))]))
CmrfHasLog(D, gam, loc, x) ==
    LET dx == MV(D, VSub(x, loc)) IN \A j \in 1..Len(dx) : SLHasLog(RAdd(RSq(gam), RSq(dx[j])))

\* ---------------------------------------------------------------------------
\* configurations
\* ---------------------------------------------------------------------------
\* fam, dim; a, b, g: parameter pattern indices; x: point pattern; o: 0 inside, 1 below, 2 above the support;
\* bc, ord, wm, pd: Markov random fields;  big Gaussians use dim 75 / 76
Cfg(fam, dim, a, b, g, x, o) ==
    [fam |-> fam, dim |-> dim, a |-> a, b |-> b, g |-> g, x |-> x, o |-> o, bc |-> "-", ord |-> 0, wm |-> 1, pd |-> 1]
CfgM(fam, pd, n, a, b, x, bc, ord, wm) ==
    [fam |-> fam, dim |-> n, a |-> a, b |-> b, g |-> 1, x |-> x, o |-> 0, bc |-> bc, ord |-> ord, wm |-> wm, pd |-> pd]

Dims == 1..MaxDim
NQ == IF Thorough THEN 4 ELSE 2          \* number of constant patterns used by the quick tier

PI(L, d) == PatIdx(L, d, NQ)
NB == IF Thorough THEN 3 ELSE 2

MrfN(k)  == MrfDim(k.pd, k.dim)
ValidIdx(k) ==
    k.fam \in {"GMRF", "LMRF", "CMRF"} =>
       /\ MrfValid(k.pd, k.dim, k.bc, k.ord, k.wm)
       /\ (k.pd = 2 => k.dim = 2)

\* ---------------------------------------------------------------------------
\* the case of a configuration: parameters, point, expected values
\* ---------------------------------------------------------------------------
\* out-of-support modification of a point
OutPoint(x, o, below, above) ==
    IF o = 1 THEN VSet(x, 1, below) ELSE IF o = 2 THEN VSet(x, Len(x), above) ELSE x

Base(k, par, scal, x, inside, lp, grad, hasgrad, cdf) ==
    [kind |-> "family", fam |-> k.fam, dim |-> Len(x), par |-> par, scal |-> scal, x |-> x, inside |-> inside,
     logpdf |-> lp, grad |-> grad, hasgrad |-> hasgrad, cdf |-> cdf, cfg |-> k]

CaseNormal(k) ==
    LET d == k.dim  m == Pat(LLoc, d, k.a)  s == Pat(LStd, d, k.b)  x == VAdd(m, Pat(LOff, d, k.x))
    IN Base(k, [mean |-> m, std |-> s], [mean |-> IsConstV(m), std |-> IsConstV(s)], x, TRUE,
            Fin(NormalLogpdf(m, s, x)), FinGrad(NormalGrad(m, s, x)), FALSE,
            [form |-> "phi", z |-> VDivE(VSub(x, m), s)])

CaseLaplace(k) ==
    LET d == k.dim  m == Pat(LLoc, d, k.a)  b == Pat(LStd, d, k.b)  x == VAdd(m, Pat(LOff, d, k.x))
    IN Base(k, [location |-> m, scale |-> b], [location |-> IsConstV(m), scale |-> TRUE], x, TRUE,
            Fin(LaplaceLogpdf(m, b, x)), FinGrad(LaplaceGrad(m, b, x)), FALSE, NoCdf)
       @@ [smooth |-> \A i \in 1..d : x[i] # m[i]]

CaseSLap(k) ==
    LET d == k.dim  m == Pat(LLoc, d, k.a)  b == Pat(LStd, d, k.b)
        beta == IF k.g = 1 THEN One ELSE R(4)
        x == VAdd(m, VScale(IF k.g = 1 THEN One ELSE R(2), Pat(LSL1, d, k.x)))
    IN Base(k, [location |-> m, scale |-> b, beta |-> <<beta>>],
            [location |-> IsConstV(m), scale |-> IsConstV(b), beta |-> TRUE], x, TRUE,
            Fin(SLapLogpdf(m, b, beta, x)), FinGrad(SLapGrad(m, b, beta, x)), TRUE, NoCdf)

CaseCauchy(k) ==
    LET d == k.dim  m == Pat(LLoc, d, k.a)  g == Pat(LStd, d, k.b)  x == VAdd(m, VMulE(g, Pat(LCauU, d, k.x)))
    IN Base(k, [location |-> m, scale |-> g], [location |-> IsConstV(m), scale |-> IsConstV(g)], x, TRUE,
            Fin(CauchyLogpdf(m, g, x)), FinGrad(CauchyGrad(m, g, x)), TRUE,
            IF CauchyCdfRational(m, g, x) THEN [form |-> "rat", value |-> CauchyCdf(m, g, x)] ELSE NoCdf)

CaseGamma(k) ==
    LET d == k.dim  a == Pat(LShape, d, k.a)  b == Pat(LRate, d, k.b)
        x == OutPoint(Pat(LPosX, d, k.x), k.o, R(-1), R(-1))
        inside == AllV(x, RPos)
    IN Base(k, [shape |-> a, rate |-> b], [shape |-> IsConstV(a), rate |-> IsConstV(b)], x, inside,
            IF inside THEN Fin(GammaLogpdf(a, b, x)) ELSE NegInf,
            IF inside THEN FinGrad(GammaGrad(a, b, x)) ELSE NaNGrad(d), FALSE,
            [form |-> "exp", comps |-> GammaCdf(a, b, x)])

CaseInvGamma(k) ==
    LET d == k.dim  a == Pat(LShape, d, k.a)  l == Pat(LLoc, d, k.b)  g == Pat(LRate, d, k.g)
        x == VAdd(l, OutPoint(Pat(LPosX, d, k.x), k.o, R(-1), R(-1)))
        inside == AllV(VSub(x, l), RPos)
    IN Base(k, [shape |-> a, location |-> l, scale |-> g],
            [shape |-> IsConstV(a), location |-> IsConstV(l), scale |-> IsConstV(g)], x, inside,
            IF inside THEN Fin(InvGammaLogpdf(a, l, g, x)) ELSE NegInf,
            IF inside THEN FinGrad(InvGammaGrad(a, l, g, x)) ELSE NaNGrad(d), TRUE,
            [form |-> "exp", comps |-> InvGammaCdf(a, l, g, x)])

InUnit(q) == RPos(q) /\ RLt(q, One)
CaseBeta(k) ==
    LET d == k.dim  a == Pat(LShape, d, k.a)  b == Pat(LShape, d, k.b)
        x == OutPoint(Pat(LUnit, d, k.x), k.o, Q(-1, 2), Q(3, 2))
        inside == AllV(x, InUnit)
    IN Base(k, [alpha |-> a, beta |-> b], [alpha |-> IsConstV(a), beta |-> IsConstV(b)], x, inside,
            IF inside THEN Fin(BetaLogpdf(a, b, x)) ELSE NegInf,
            IF inside THEN FinGrad(BetaGrad(a, b, x)) ELSE NaNGrad(d), TRUE,
            [form |-> "rat", value |-> BetaCdf(a, b, x)])

CaseUniform(k) ==
    LET d == k.dim  lo == Pat(LLoc, d, k.a)  w == Pat(LStd, d, k.b)  hi == VAdd(lo, w)
        xin == VAdd(lo, VMulE(w, Pat(LUnit, d, k.x)))
        x == IF k.o = 1 THEN VSet(xin, 1, RSub(lo[1], One)) ELSE IF k.o = 2 THEN VSet(xin, d, RAdd(hi[d], Half)) ELSE xin
        inside == \A i \in 1..d : RLt(lo[i], x[i]) /\ RLt(x[i], hi[i])
    IN Base(k, [low |-> lo, high |-> hi], [low |-> IsConstV(lo), high |-> IsConstV(hi)], x, inside,
            IF inside THEN Fin(UniformLogpdf(lo, hi, x)) ELSE NegInf,
            IF inside THEN FinGrad(VZero(d)) ELSE NaNGrad(d), TRUE, NoCdf)

LMhnG == <<Zero, One, R(-1), R(2)>>
CaseMHN(k) ==
    LET a == <<LShape[k.a]>>  b == <<(<<One, Half, R(2)>>)[k.b]>>  g == <<LMhnG[k.g]>>
        x == IF k.o = 1 THEN <<R(-1)>> ELSE <<(<<One, Half, R(2)>>)[k.x]>>
        inside == RPos(x[1])
    IN Base(k, [alpha |-> a, beta |-> b, gamma |-> g], [alpha |-> TRUE, beta |-> TRUE, gamma |-> TRUE], x, inside,
            IF inside THEN Fin(MHNLogpdf(a, b, g, x)) ELSE NegInf,
            IF inside THEN FinGrad(MHNGrad(a, b, g, x)) ELSE NaNGrad(1), TRUE, NoCdf)
       @@ [abg_equal |-> (a = b /\ b = g), unnormalised |-> TRUE]

\* Lognormal(mean, cov):  log x ~ Gaussian(mean, cov).  Parameters in units of u = log 2:
\* mean = mu u,  cov = u^2 C,  x = 2^k  =>  logpdf = -d/2 log 2pi - d loglog2 - 1/2 logdet C - 1/2 (k-mu)' C^-1 (k-mu) - sum k_i u
\* gradient_i = ( -1 - [C^-1 (k - mu)]_i / u ) / x_i  =  gc_i + gu_i / log 2
CaseLognormal(k) ==
    LET d == k.dim  mu == Pat(LMu, d, k.a)  W == SqrtPrecOf(d, k.b, Pat(LLam, d, k.g))
        C == FormMatrix("cov", W)  cn == Canon("cov", C)
        kk == Pat(LK, d, k.x)
        xin == F([i \in 1..d |-> Pow2(kk[i][1])])
        x == OutPoint(xin, k.o, R(-1), R(-1))
        inside == AllV(x, RPos)
        w == MV(cn[1], VSub(kk, mu))
    IN Base(k, [mean_u |-> mu, cov_u2 |-> C], [mean_u |-> FALSE, cov_u2 |-> FALSE], x, inside,
            IF inside THEN Fin(SLAdd(SLAdd(GaussLogpdf(mu, cn, kk), SLAtom("loglog2", R(-d))),
                                     SLAtom("log2", RNeg(RSumSeq(kk)))))
            ELSE NegInf,
            IF inside THEN FinGrad(F([i \in 1..d |-> RNeg(RDiv(One, x[i]))])) ELSE NaNGrad(d), TRUE, NoCdf)
       @@ [grad_invlog2 |-> IF inside THEN F([i \in 1..d |-> RNeg(RDiv(w[i], x[i]))]) ELSE VZero(d), k |-> kk]

GaussCase(k) ==
    LET d == k.dim  m == Pat(LLoc, d, k.a)  W == SqrtPrecOf(d, k.b, Pat(LLam, d, k.g))
        cn == Canon("sqrtprec", W)
        x == VAdd(m, Pat(LOff, d, k.x))
        ins == GaussInputs(d, W)
        inseq == SetToSeq(ins)
    IN Base(k, [mean |-> m], [mean |-> IsConstV(m)], x, TRUE,
            Fin(GaussLogpdf(m, cn, x)), FinGrad(GaussGrad(m, cn, x)), TRUE,
            IF IsDiagM(W) THEN [form |-> "phi", z |-> F([i \in 1..d |-> RMul(W[i][i], RSub(x[i], m[i]))])] ELSE NoCdf)
       @@ [prec |-> cn[1], logdet |-> cn[2], rank |-> cn[3],
           \* the same instance at other magnitudes (ScalingLaw): exponent e of a = 4^e, the power of two by which the input of
           \* each form, the deviation x - mean and the gradient are multiplied, and the expected log-density
           scaled |-> [i \in 1..Len(ScaleExpsEmitted) |->
                         LET e == ScaleExpsEmitted[i]
                         IN [e |-> e, dev_pow2 |-> e, grad_pow2 |-> -e,
                             form_pow2 |-> [f \in {Forms[j] : j \in 1..4} |-> FormScalePow2(f, e)],
                             logpdf |-> Fin(ScaledLogpdf(GaussLogpdf(m, cn, x), d, e))]],
           inputs |-> [i \in 1..Cardinality(ins) |->
                         [form |-> inseq[i][1], shape |-> inseq[i][2],
                          data |-> InputData(inseq[i][2], FormMatrix(inseq[i][1], W))]]]

\* diagonal Gaussians on both sides of the real dense/sparse threshold: only vectors are emitted
BigVec(form, lam) == F([i \in 1..Len(lam) |->
    CASE form = "cov" -> RInv(RSq(lam[i])) [] form = "prec" -> RSq(lam[i]) [] form = "sqrtcov" -> RInv(lam[i]) [] OTHER -> lam[i]])
BigPrecOf(form, v) == F([i \in 1..Len(v) |->
    CASE form = "cov" -> RInv(v[i]) [] form = "prec" -> v[i] [] form = "sqrtcov" -> RInv(RSq(v[i])) [] OTHER -> RSq(v[i])])
BigCase(k) ==
    LET d == k.dim  m == Pat(LLoc, d, k.a)  lam == Pat(LLam, d, k.g)  x == VAdd(m, Pat(LOff, d, k.x))
        pr == F([i \in 1..d |-> RSq(lam[i])])
        dev == VSub(x, m)
        logdet == SLScale(R(-2), SLSum([i \in 1..d |-> SLLog(lam[i])]))
        lp == SLAdd(SLScale(Q(-1, 2), SLAdd(SLScale(R(d), SLLog2Pi), logdet)),
                    SLConst(RMul(Q(-1, 2), RSumB(VMulE(dev, VMulE(pr, dev))))))
    IN [kind |-> "gaussbig", fam |-> "GaussianBig", dim |-> d, mean |-> m, meanscal |-> IsConstV(m), x |-> x,
        lamconst |-> IsConstV(lam), logpdf |-> Fin(lp), grad |-> FinGrad(VScale(R(-1), VMulE(pr, dev))),
        inputs |-> [i \in 1..4 |-> [form |-> Forms[i], vec |-> BigVec(Forms[i], lam)]], cfg |-> k]
SameDistributionBig ==
    c.fam = "GaussianBig" =>
      LET lam == Pat(LLam, c.dim, c.g)
      IN \A i \in 1..4 : BigPrecOf(Forms[i], BigVec(Forms[i], lam)) = F([j \in 1..c.dim |-> RSq(lam[j])])

MrfParts(k) ==
    LET N == MrfN(k)
        Di == MrfD(k.pd, k.dim, k.bc, k.ord, k.wm)
        D == IF Len(Di) = 0 THEN <<>> ELSE MR(Di)
        P == IF Len(Di) = 0 THEN MZero(N, N) ELSE MR(DO!IMM(DO!IT(Di), Di))
    IN [N |-> N, Di |-> Di, D |-> D, P |-> P, rank |-> N - MrfNullity(k.pd, k.dim, k.bc, k.ord, k.wm)]

MrfCase(k) ==
    LET mp == MrfParts(k)
        N == mp.N
        loc == Pat(LLoc, N, k.a)
        x == VAdd(loc, Pat(LInt, N, k.x))
        par == (<<One, R(2), R(3)>>)[k.b]                    \* CMRF / LMRF scale
        delta == (<<One, Q(1, 4), R(4)>>)[k.b]               \* GMRF precision
        mrf == [pd |-> k.pd, n |-> k.dim, bc |-> k.bc, order |-> k.ord, wm |-> k.wm, D |-> mp.Di, rank |-> mp.rank]
    IN CASE k.fam = "GMRF" ->
              LET pdet == PDet(mp.P, mp.rank)
              IN Base(k, [mean |-> loc, prec |-> <<delta>>], [mean |-> IsConstV(loc), prec |-> TRUE], x, TRUE,
                      Fin(GmrfLogpdf(mp.P, mp.rank, pdet, delta, loc, x)), FinGrad(GmrfGrad(mp.P, delta, loc, x)),
                      TRUE, NoCdf) @@ [mrf |-> mrf, pdet |-> pdet]
         [] k.fam = "LMRF" ->
              Base(k, [location |-> loc, scale |-> <<par>>], [location |-> IsConstV(loc), scale |-> TRUE], x, TRUE,
                   Fin(LmrfLogpdf(mp.D, par, loc, x)), FinGrad(LmrfGrad(mp.D, par, loc, x)), FALSE, NoCdf)
              @@ [mrf |-> mrf, smooth |-> LET dx == MV(mp.D, VSub(x, loc)) IN \A j \in 1..Len(dx) : dx[j] # Zero]
         [] OTHER ->
              Base(k, [location |-> loc, scale |-> <<par>>], [location |-> IsConstV(loc), scale |-> TRUE], x, TRUE,
                   Fin(CmrfLogpdf(mp.D, par, loc, x)), FinGrad(CmrfGrad(mp.D, par, loc, x)), TRUE, NoCdf)
              @@ [mrf |-> mrf]

\* ---------------------------------------------------------------------------
\* likelihoods and posteriors: sum rule and chain rule  J(x)^T prec (data - F(x))
\* ---------------------------------------------------------------------------
\* forward models with small integer Jacobians
LA(n, a) == CASE n = 1 -> <<<<2>>, <<-1>>>>
              [] n = 2 -> (IF a = 1 THEN <<<<2, 1>>, <<0, -1>>>> ELSE <<<<1, 0>>, <<2, -1>>, <<0, 3>>>>)
              [] OTHER -> (IF a = 1 THEN <<<<1, 2, 0>>, <<-1, 0, 3>>>> ELSE <<<<0, 1, -1>>, <<2, 0, 1>>, <<1, 1, 0>>>>)
NLA(n)   == IF n = 1 THEN 1 ELSE 2
LB(A)    == [i \in 1..Len(A) |-> [j \in 1..Len(A[1]) |-> ((i + 2 * j) % 3) - 1]]
MKinds   == <<"matrix", "funadj", "jacobian", "gradient", "geomgrad">>
\*   matrix / funadj   : F(x) = A x                         (LinearModel from a matrix / forward+adjoint callables)
\*   jacobian / gradient: F(x) = A (x.x) + B x              (Model with jacobian= / gradient= callable)
\*   geomgrad          : F(p) = A (p.p)  = matrix model A on a domain geometry with par2fun(p) = p.p that supplies
\*                       its own derivative  gradient(direction, p) = 2 p . direction
ModelF(mk, A, B, x) ==
    IF mk \in {"matrix", "funadj"} THEN MV(A, x)
    ELSE IF mk = "geomgrad" THEN MV(A, VMulE(x, x)) ELSE VAdd(MV(A, VMulE(x, x)), MV(B, x))
ModelJ(mk, A, B, x) ==
    IF mk \in {"matrix", "funadj"} THEN A
    ELSE LET J2 == F([i \in 1..Len(A) |-> [j \in 1..Len(x) |-> RMul(R(2), RMul(A[i][j], x[j]))]])
         IN IF mk = "geomgrad" THEN J2 ELSE MAdd(J2, B)
\* Gaussian data distribution  y ~ N(F(x), diag(lam^2)^-1):  log-likelihood and its gradient w.r.t. x
NoiseCanon(lam) == <<MDiag(F([i \in 1..Len(lam) |-> RSq(lam[i])])),
                     SLScale(R(-2), SLSum([i \in 1..Len(lam) |-> SLLog(lam[i])])), Len(lam)>>
LogLik(mk, A, B, lam, y, x)  == GaussLogpdf(ModelF(mk, A, B, x), NoiseCanon(lam), y)
GradLik(mk, A, B, lam, y, x) ==
    MV(MT(ModelJ(mk, A, B, x)), MV(NoiseCanon(lam)[1], VSub(y, ModelF(mk, A, B, x))))

\* quick tier: two noise patterns; the Lognormal data family only without prior and for three model kinds
LikConfigs(fam) ==
    UNION {{ Cfg(fam, na[1], na[2], b, g, x, o) :
                 b \in (IF Thorough THEN PI(LLam, Len(LA(na[1], na[2]))) ELSE {2, Len(LLam) + 1} \cap PI(LLam, Len(LA(na[1], na[2])))),
                 g \in (IF fam = "LikLognormal" /\ ~Thorough THEN {3} ELSE IF na[1] = 1 THEN {1, 3} ELSE 1..3),
                 x \in PI(LInt, na[1]),
                 o \in (IF fam = "LikLognormal" /\ ~Thorough THEN {1, 3, 5} ELSE 1..5) }
           : na \in {<<n, a>> \in Dims \X (1..2) : a <= NLA(n)}}

PriorParts(k, x) ==      \* g = 1: Gaussian(mean, cov = 4);  2: GMRF(mean, 1, zero, order 1);  3: no prior
    LET n == k.dim  m == Pat(LLoc, n, IF n = 1 THEN 2 ELSE Len(LLoc) + 1)
    IN CASE k.g = 1 -> LET cn == <<MDiag([i \in 1..n |-> Q(1, 4)]), SLScale(R(n), SLLog(R(4))), n>>
                       IN [kind |-> "Gaussian", mean |-> m, logpdf |-> GaussLogpdf(m, cn, x), grad |-> GaussGrad(m, cn, x)]
         [] k.g = 2 -> LET Di == MrfD(1, n, "zero", 1, 1)  P == MR(DO!IMM(DO!IT(Di), Di))  pdet == PDet(P, n)
                       IN [kind |-> "GMRF", mean |-> m, logpdf |-> GmrfLogpdf(P, n, pdet, One, m, x),
                           grad |-> GmrfGrad(P, One, m, x)]
         [] OTHER -> [kind |-> "none", mean |-> m, logpdf |-> SLZero, grad |-> VZero(n)]

\* ---- models on an expansion geometry ------------------------------------------------------------------------------
\* Domain geometries StepExpansion / KLExpansion ... map parameters p to function values u = E p (E linear, not the identity),
\* are SUBCLASSES of the identity-like class Continuous1D and offer no `gradient`.  A model given on function values, Ff(u),
\* then has the log-likelihood p |-> loglik(Ff(E p)) whose derivative with respect to p is
\*       ChainGrad(E, gradient_fun) = E^T gradient_fun(E p),
\* which the library cannot form: the gradient of a likelihood / posterior / multiple-likelihood posterior through such a model
\* is REFUSED, or it is that vector (ModelDomOutcome).  The replay composes the spec's forward map with a left inverse R of the
\* geometry's own E (Ff = F . R, R E = I), so that the object's log-density at p is the spec's LogLik at x = p and its
\* true derivative is the spec's GradLik; with the rational step expansion below TLC checks this algebra exactly.
ExpGeoms == <<"step", "kl_full", "kl_trunc">>    \* realised by StepExpansion (2 nodes per step), KLExpansion (all modes / truncated)
DomGeoms == <<"identity", "withgradient", "expansion">>
ModelDomOutcome(dg) == IF dg = "expansion" THEN "RefusedOrChain" ELSE "Value"
StepE(n) == F([a \in 1..(2 * n) |-> [b \in 1..n |-> IF (a + 1) \div 2 = b THEN One ELSE Zero]])   \* node a lies in step (a+1) div 2
StepR(n) == F([b \in 1..n |-> [a \in 1..(2 * n) |-> IF (a + 1) \div 2 = b THEN Half ELSE Zero]])  \* mean over the step: R E = I
ChainGrad(E, gfun) == MV(MT(E), gfun)
\* gradient of u |-> loglik(F(R u)) with respect to the FUNCTION values u
GradLikFun(mk, A, B, lam, y, Rm, u) == MV(MT(Rm), GradLik(mk, A, B, lam, y, MV(Rm, u)))
ExpansionChain ==
    (c.fam \in {"Lik", "LikLognormal"} /\ MKinds[c.o] # "geomgrad") =>
      LET n == c.dim  A == MR(LA(n, c.a))  B == MR(LB(LA(n, c.a)))  mk == MKinds[c.o]
          m == Len(A)
          lam == Pat(LLam, m, c.b)
          y == IF c.fam = "LikLognormal" THEN VZero(m) ELSE Pat(LInt, m, IF m = 1 THEN 2 ELSE Len(LInt) + 1)
          x == Pat(LInt, n, c.x)
          E == StepE(n)  Rm == StepR(n)
          u == MV(E, x)
          gfun == GradLikFun(mk, A, B, lam, y, Rm, u)
          gpar == GradLik(mk, A, B, lam, y, x)
          hh == F([i \in 1..n |-> Q(i, 2)])                              \* a fixed displacement
          LLf(p) == LogLik(mk, A, B, lam, y, MV(Rm, MV(E, p)))          \* the object's own log-density at the parameters p
      IN /\ MM(Rm, E) = MId(n)
         /\ LLf(x) = LogLik(mk, A, B, lam, y, x)
         /\ ChainGrad(E, gfun) = gpar                                   \* the derivative with respect to the parameters
         /\ (gpar # VZero(n) => MV(Rm, gfun) # gpar)                    \* gradient_fun pushed through fun2par is NOT that derivative
         /\ (mk \in {"matrix", "funadj"} =>                              \* and it is the derivative of the composed density, exactly
               SLSub(LLf(VAdd(x, hh)), LLf(VSub(x, hh))) = SLConst(RMul(R(2), Dot(hh, ChainGrad(E, gfun)))))

LikCase(k) ==
    LET n == k.dim  A == MR(LA(n, k.a))  B == MR(LB(LA(n, k.a)))  mk == MKinds[k.o]
        m == Len(A)
        lam == Pat(LLam, m, k.b)
        y == IF k.fam = "LikLognormal" THEN VZero(m) ELSE Pat(LInt, m, IF m = 1 THEN 2 ELSE Len(LInt) + 1)
        x == Pat(LInt, n, k.x)
        pr == PriorParts(k, x)
        ll == LogLik(mk, A, B, lam, y, x)
        gl == GradLik(mk, A, B, lam, y, x)
        \* second likelihood of the multiple-likelihood posterior: jacobian model, unit noise, data y2
        y2 == Pat(LInt, m, 2)
        lam2 == [i \in 1..m |-> One]
    IN [kind |-> "lik", fam |-> k.fam, dim |-> n, A |-> LA(n, k.a), B |-> LB(LA(n, k.a)), mk |-> mk, lam |-> lam,
        lamscal |-> IsConstV(lam), logy |-> y, x |-> x, prior |-> pr,
        loglik |-> ll, gradlik |-> gl,
        logpost |-> SLAdd(ll, pr.logpdf), gradpost |-> VAdd(gl, pr.grad),
        y2 |-> y2, loglik2 |-> LogLik("jacobian", A, B, lam2, y2, x), gradlik2 |-> GradLik("jacobian", A, B, lam2, y2, x),
        \* the same likelihood / posterior through a model on an expansion geometry (Ff = F . R): log-densities as above; gradient
        \* refused or the vectors above ( = ChainGrad(E, gradient_fun) )
        expansion |-> [geoms |-> (IF mk = "geomgrad" THEN <<>> ELSE ExpGeoms), outcome |-> ModelDomOutcome("expansion"),
                       stepE |-> StepE(n), stepR |-> StepR(n)],
        cfg |-> k]

FamConfigs(fam) ==
    CASE fam = "Normal" -> UNION {{ Cfg(fam, d, a, b, 1, x, 0) : a \in PI(LLoc, d), b \in PI(LStd, d), x \in PI(LOff, d) } : d \in Dims}
      [] fam = "Laplace" -> UNION {{ Cfg(fam, d, a, b, 1, x, 0) : a \in PI(LLoc, d), b \in 1..(NB + 1), x \in PI(LOff, d) } : d \in Dims}
      [] fam = "SmoothedLaplace" -> UNION {{ Cfg(fam, d, a, b, g, x, 0) : a \in PI(LLoc, d), b \in PI(LStd, d), g \in 1..2, x \in PI(LSL1, d) } : d \in Dims}
      [] fam = "Cauchy" -> UNION {{ Cfg(fam, d, a, b, 1, x, 0) : a \in PI(LLoc, d), b \in PI(LStd, d),
                                     x \in PatIdx(LCauU, d, IF Thorough THEN 6 ELSE 3) } : d \in Dims}
      [] fam = "Gamma" -> UNION {{ Cfg(fam, d, a, b, 1, x, o) : a \in PI(LShape, d), b \in PI(LRate, d), x \in PI(LPosX, d), o \in 0..1 } : d \in Dims}
      [] fam = "InverseGamma" -> UNION {{ Cfg(fam, d, a, b, g, x, o) : a \in PI(LShape, d), b \in PI(LLoc, d), g \in PI(LRate, d),
                                           x \in PI(LPosX, d), o \in 0..1 } : d \in Dims}
      [] fam = "Beta" -> UNION {{ Cfg(fam, d, a, b, 1, x, o) : a \in PI(LShape, d), b \in PI(LShape, d), x \in PI(LUnit, d), o \in 0..2 } : d \in Dims}
      [] fam = "Uniform" -> UNION {{ Cfg(fam, d, a, b, 1, x, o) : a \in PI(LLoc, d), b \in PI(LStd, d), x \in PI(LUnit, d), o \in 0..2 } : d \in Dims}
      [] fam = "ModifiedHalfNormal" -> { Cfg(fam, 1, a, b, g, x, o) : a \in 1..3, b \in 1..3, g \in 1..4, x \in 1..3, o \in 0..1 }
      [] fam = "Lognormal" -> UNION {{ Cfg(fam, d, a, b, g, x, o) : a \in PI(LMu, d), b \in 1..NUT(d), g \in PI(LLam, d), x \in PI(LK, d), o \in 0..1 } : d \in Dims}
      [] fam = "Gaussian" -> UNION {{ Cfg(fam, d, a, b, g, x, 0) : a \in PI(LLoc, d), b \in 1..NUT(d), g \in PI(LLam, d), x \in PI(LOff, d) } : d \in Dims}
      [] fam = "GaussianBig" -> { Cfg(fam, d, a, 1, g, x, 0) : d \in {75, 76}, a \in {2, 4}, g \in {2, 4}, x \in {1, 5} }
      [] fam \in {"Lik", "LikLognormal"} -> LikConfigs(fam)
      [] OTHER -> UNION {{ CfgM(fam, pd, n, a, b, x, bc, ord, wm) :
                             a \in PI(LLoc, MrfDim(pd, n)), b \in 1..NB, x \in PI(LInt, MrfDim(pd, n)),
                             bc \in {"zero", "periodic", "neumann"}, ord \in (IF fam = "GMRF" THEN 0..2 ELSE {1}), wm \in {1, 2} }
                         : pd \in {1, 2}, n \in 2..(IF Thorough THEN 5 ELSE 4)}
Configs == UNION {FamConfigs(f) : f \in Fams}

\* can every logarithm of the configuration be represented?  (others are not configurations)
HasLogs(k) ==
    CASE k.fam = "GMRF" -> LET mp == MrfParts(k) IN SLHasLog(PDet(mp.P, mp.rank))
      [] k.fam = "CMRF" -> LET mp == MrfParts(k)  loc == Pat(LLoc, mp.N, k.a)
                           IN Len(mp.Di) > 0 /\ CmrfHasLog(mp.D, (<<One, R(2), R(3)>>)[k.b], loc, VAdd(loc, Pat(LInt, mp.N, k.x)))
      [] k.fam = "LMRF" -> Len(MrfParts(k).Di) > 0
      [] OTHER -> TRUE

Valid(k) == ValidIdx(k) /\ HasLogs(k)

CaseOf(k) ==
    CASE k.fam = "Normal" -> CaseNormal(k) [] k.fam = "Laplace" -> CaseLaplace(k)
      [] k.fam = "SmoothedLaplace" -> CaseSLap(k) [] k.fam = "Cauchy" -> CaseCauchy(k)
      [] k.fam = "Gamma" -> CaseGamma(k) [] k.fam = "InverseGamma" -> CaseInvGamma(k)
      [] k.fam = "Beta" -> CaseBeta(k) [] k.fam = "Uniform" -> CaseUniform(k)
      [] k.fam = "ModifiedHalfNormal" -> CaseMHN(k) [] k.fam = "Lognormal" -> CaseLognormal(k)
      [] k.fam = "Gaussian" -> GaussCase(k) [] k.fam = "GaussianBig" -> BigCase(k)
      [] k.fam \in {"Lik", "LikLognormal"} -> LikCase(k)
      [] OTHER -> MrfCase(k)

\* ---------------------------------------------------------------------------
\* invariants on the specification itself
\* ---------------------------------------------------------------------------
HVec(d) == F([i \in 1..d |-> Q(i, 2)])         \* a fixed displacement

\* quadratic families: central difference of the spec density = spec gradient, exactly
QuadIdentity ==
    LET d == IF c.fam \in {"GMRF"} THEN MrfN(c) ELSE c.dim
        h == HVec(d)
        two == R(2)
    IN CASE c.fam = "Normal" ->
              LET m == Pat(LLoc, d, c.a)  s == Pat(LStd, d, c.b)  x == VAdd(m, Pat(LOff, d, c.x))
              IN SLSub(NormalLogpdf(m, s, VAdd(x, h)), NormalLogpdf(m, s, VSub(x, h)))
                   = SLConst(RMul(two, Dot(h, NormalGrad(m, s, x))))
         [] c.fam = "Gaussian" ->
              LET m == Pat(LLoc, d, c.a)  cn == Canon("sqrtprec", SqrtPrecOf(d, c.b, Pat(LLam, d, c.g)))
                  x == VAdd(m, Pat(LOff, d, c.x))
              IN SLSub(GaussLogpdf(m, cn, VAdd(x, h)), GaussLogpdf(m, cn, VSub(x, h)))
                   = SLConst(RMul(two, Dot(h, GaussGrad(m, cn, x))))
         [] c.fam = "GMRF" ->
              LET mp == MrfParts(c)  loc == Pat(LLoc, d, c.a)  x == VAdd(loc, Pat(LInt, d, c.x))
                  delta == (<<One, Q(1, 4), R(4)>>)[c.b]  pdet == PDet(mp.P, mp.rank)
              IN SLSub(GmrfLogpdf(mp.P, mp.rank, pdet, delta, loc, VAdd(x, h)),
                       GmrfLogpdf(mp.P, mp.rank, pdet, delta, loc, VSub(x, h)))
                   = SLConst(RMul(two, Dot(h, GmrfGrad(mp.P, delta, loc, x))))
         [] c.fam \in {"Lik", "LikLognormal"} /\ MKinds[c.o] \in {"matrix", "funadj"} ->
              LET n == c.dim  A == MR(LA(n, c.a))  B == MR(LB(LA(n, c.a)))  mk == MKinds[c.o]
                  lam == Pat(LLam, Len(A), c.b)  y == Pat(LInt, Len(A), 2)  x == Pat(LInt, n, c.x)  hh == HVec(n)
              IN SLSub(LogLik(mk, A, B, lam, y, VAdd(x, hh)), LogLik(mk, A, B, lam, y, VSub(x, hh)))
                   = SLConst(RMul(two, Dot(hh, GradLik(mk, A, B, lam, y, x))))
         [] OTHER -> TRUE

\* logpdf - kernel does not depend on the evaluation point (Gaussian: kernel = -1/2 Mahalanobis distance;
\* GMRF likewise); for every family: the x-free part of the density is the same at x and at the reference point
Unnormalised ==
    CASE c.fam = "Gaussian" ->
           LET d == c.dim  m == Pat(LLoc, d, c.a)  cn == Canon("sqrtprec", SqrtPrecOf(d, c.b, Pat(LLam, d, c.g)))
               x == VAdd(m, Pat(LOff, d, c.x))
           IN SLSub(GaussLogpdf(m, cn, x), GaussKernel(m, cn, x)) = SLSub(GaussLogpdf(m, cn, m), GaussKernel(m, cn, m))
      [] c.fam = "Normal" ->
           LET d == c.dim  m == Pat(LLoc, d, c.a)  s == Pat(LStd, d, c.b)  x == VAdd(m, Pat(LOff, d, c.x))
               ker(y) == SLConst(RMul(Q(-1, 2), Norm2(VDivE(VSub(y, m), s))))
           IN SLSub(NormalLogpdf(m, s, x), ker(x)) = SLSub(NormalLogpdf(m, s, m), ker(m))
      [] OTHER -> TRUE

\* support and gradient domain coincide; the density is -inf exactly outside the support
NaNOutside ==
    c.fam \notin {"GaussianBig", "Lik", "LikLognormal"} =>
      LET cs == CaseOf(c)
      IN /\ cs.grad.nan = ~cs.inside
         /\ cs.logpdf.neginf = ~cs.inside
         /\ (c.o = 0 => cs.inside) /\ (c.o # 0 => ~cs.inside)

\* ---- decision table -----------------------------------------------------------
Families_  == {"Normal", "Gaussian", "GMRF", "LMRF", "CMRF", "Laplace", "SmoothedLaplace", "Cauchy", "Gamma",
               "InverseGamma", "Beta", "Lognormal", "Uniform", "ModifiedHalfNormal"}
NoGrad     == {"Normal", "Laplace", "Gamma", "LMRF"}                \* no analytic gradient is implemented / documented
Guarded    == {"Gaussian", "GMRF", "CMRF", "Cauchy", "Beta", "InverseGamma", "Lognormal"}   \* identity-geometry guard
ViaModel   == {"Gaussian", "Lognormal"}                              \* conditional mean = forward model: chain rule
GeomKinds  == {"identity", "mapped", "withgradient", "expansion"}   \* expansion: subclass of an identity-like geometry class
                                                                      \* with a non-identity par2fun and no `gradient`
Outcomes   == {"Value", "Refused", "ValueFD"}

GradOutcome(fam, cond, geom, fd) ==
    IF cond THEN (IF fam \in ViaModel /\ ~fd THEN "Value" ELSE "Refused")   \* only through a model's gradient
    ELSE IF fd THEN "ValueFD"
    ELSE IF fam \in NoGrad THEN "Refused"
    ELSE IF geom \in {"mapped", "expansion"} /\ fam \in Guarded THEN "Refused"
    ELSE IF geom = "withgradient" /\ fam \in Guarded \ {"Gaussian"} THEN "Refused"
    ELSE "Value"

TableRows == {<<f, cd, g, fd>> : f \in Families_, cd \in BOOLEAN, g \in GeomKinds, fd \in BOOLEAN}
OutcomeTable ==
    \A r \in TableRows :
      LET o == GradOutcome(r[1], r[2], r[3], r[4])
      IN /\ o \in Outcomes
         /\ (o = "Value" => r[1] \notin NoGrad /\ ~r[4])                \* a value without FD needs an analytic gradient
         /\ (~r[2] /\ r[4] => o = "ValueFD")                           \* FD always yields the derivative
         /\ (~r[4] /\ r[1] \in NoGrad => o = "Refused")                \* refused where not available
         /\ (o = "ValueFD" => r[4])

\* the rows are enumerated by index arithmetic (a recursion of depth 168 occasionally exhausted the Java stack)
FamSeq  == <<"Normal", "Gaussian", "GMRF", "LMRF", "CMRF", "Laplace", "SmoothedLaplace", "Cauchy", "Gamma",
             "InverseGamma", "Beta", "Lognormal", "Uniform", "ModifiedHalfNormal">>
GeomSeq == <<"identity", "mapped", "withgradient", "expansion">>
NGeom   == Len(GeomSeq)
ASSUME {FamSeq[i] : i \in 1..Len(FamSeq)} = Families_ /\ {GeomSeq[i] : i \in 1..NGeom} = GeomKinds
TableCase ==
    [kind |-> "table",
     rows |-> [i \in 1..(4 * NGeom * Len(FamSeq)) |->
                 LET fam == FamSeq[((i - 1) \div (4 * NGeom)) + 1]
                     cond == (((i - 1) \div (2 * NGeom)) % 2) = 1
                     geom == GeomSeq[(((i - 1) \div 2) % NGeom) + 1]
                     fd == ((i - 1) % 2) = 1
                 IN [fam |-> fam, cond |-> cond, geom |-> geom, fd |-> fd, outcome |-> GradOutcome(fam, cond, geom, fd)]]]

EmitCase ==
    Emit => /\ PrintT("@@CASE " \o ToJson(CaseOf(c)) \o " @@END")
            /\ (c = Cfg("Normal", 1, 1, 1, 1, 1, 0) => PrintT("@@CASE " \o ToJson(TableCase) \o " @@END"))

\* ---------------------------------------------------------------------------
\* Reassign: ONE object, its parameters replaced one after another through the public attributes / property setters
\* ---------------------------------------------------------------------------
\* The documented density is a function of the CURRENT parameters of the object.  Everything an object derives from its
\* parameters (normalising constant, log-determinant, rank, square-root precision, covariance, frozen base generators ...)
\* may be computed lazily and kept, but must never outlive the parameters it was computed from.  Behavioural part of this
\* module (configurations Families.reassign.*.cfg: INIT ReInit, NEXT ReNext):
\*     state   c = a configuration k1 of the lattice  @@  [re |-> [tgt, done, cached]]
\*               tgt    parameter pattern indices of a second configuration k2 of the same family, dimension, operator
\*               done   the assignment units carried out so far, in order (a unit = the public attributes that one
\*                      pattern index determines: Normal mean <- a, std <- b; Uniform: low and high <- a, high <- b;
\*                      Gaussian / Lognormal: the matrix-valued input <- (b, g) ...)
\*               cached <<>> or <<configuration the object's derived quantities were last computed from>>
\*     ReEvaluate   any observable is evaluated: derived quantities are (re)computed from the current parameters
\*     ReAssign(u)  unit u is assigned: the parameters change and everything derived from the old ones is dropped
\* ReassignIsFresh: in every reachable state the object answers (log-density, gradient, cdf) like a freshly built object with
\* its current parameters.  Named deviation StaleCacheAfterAssign (NEXT ReNextStale, Families.reassign_stale.deviation.cfg):
\* an assignment keeps what was derived before - TLC must refute ReassignIsFresh (Evaluate . Assign).
\* ReEmit: every terminal state (all units assigned) emits the start case, the order of the units and, after EVERY
\* assignment of the order, the complete expected case of the mixed configuration (partial reassignment = prefixes of the
\* cyclic orders).  The replay realises the behaviours  A* E  (assign first, evaluate later),  E A* E  and
\* (E A)* E  of this state graph on one real object.
ReIdx == {"a", "b", "g"}
ReU(names, idx) == [names |-> names, idx |-> idx]
ReUnits(fam) ==
    CASE fam = "Normal"                           -> <<ReU(<<"mean">>, {"a"}), ReU(<<"std">>, {"b"})>>
      [] fam \in {"Laplace", "Cauchy", "LMRF", "CMRF"} -> <<ReU(<<"location">>, {"a"}), ReU(<<"scale">>, {"b"})>>
      [] fam = "SmoothedLaplace"                  -> <<ReU(<<"location">>, {"a"}), ReU(<<"scale">>, {"b"}), ReU(<<"beta">>, {"g"})>>
      [] fam = "Gamma"                            -> <<ReU(<<"shape">>, {"a"}), ReU(<<"rate">>, {"b"})>>
      [] fam = "InverseGamma"                     -> <<ReU(<<"shape">>, {"a"}), ReU(<<"location">>, {"b"}), ReU(<<"scale">>, {"g"})>>
      [] fam = "Beta"                             -> <<ReU(<<"alpha">>, {"a"}), ReU(<<"beta">>, {"b"})>>
      [] fam = "Uniform"                          -> <<ReU(<<"low", "high">>, {"a"}), ReU(<<"high">>, {"b"})>>     \* high = low + width
      [] fam = "Lognormal"                        -> <<ReU(<<"mean">>, {"a"}), ReU(<<"cov">>, {"b", "g"})>>
      [] fam = "Gaussian"                         -> <<ReU(<<"mean">>, {"a"}), ReU(<<"matrix">>, {"b", "g"})>>    \* matrix = the attribute of the input form
      [] fam = "GMRF"                             -> <<ReU(<<"mean">>, {"a"}), ReU(<<"prec">>, {"b"})>>
      [] OTHER                                    -> <<>>       \* ModifiedHalfNormal: getters are finding C04-F6; GaussianBig, Lik: not objects of this part
ReFamilies == {f \in Families_ : Len(ReUnits(f)) > 0}

ReBase(s) == [fam |-> s.fam, dim |-> s.dim, a |-> s.a, b |-> s.b, g |-> s.g, x |-> s.x, o |-> s.o,
              bc |-> s.bc, ord |-> s.ord, wm |-> s.wm, pd |-> s.pd]
ReMix(k, tgt, S) == [k EXCEPT !.a = IF "a" \in S THEN tgt.a ELSE @, !.b = IF "b" \in S THEN tgt.b ELSE @,
                              !.g = IF "g" \in S THEN tgt.g ELSE @]
\* the second configuration: in every pattern index the cyclic successor among the values the lattice of this family uses
ReSame(k, q) == q.dim = k.dim /\ q.pd = k.pd /\ q.bc = k.bc /\ q.ord = k.ord /\ q.wm = k.wm
ReVals(FC, k, i) == {q[i] : q \in {r \in FC : ReSame(k, r)}}
ReNextIn(S, v) == IF \E w \in S : w > v THEN CHOOSE w \in S : w > v /\ \A y \in S : y > v => w <= y
                  ELSE CHOOSE w \in S : \A y \in S : w <= y
ReMaxIn(S) == CHOOSE w \in S : \A y \in S : y <= w
ReMinIn(S) == CHOOSE w \in S : \A y \in S : w <= y
ReTarget(FC, k) == [i \in ReIdx |-> ReNextIn(ReVals(FC, k, i), k[i])]
\* start configurations: the genuinely vector-valued evaluation pattern (thorough: also the first constant one); three-unit
\* families inside the support only; Markov random fields on the small grids with the first and the last location pattern
\* (quick tier: first scale / precision only; Gaussian: first and last mean and diagonal pattern)
ReEnds(FC, k, i) == {ReMinIn(ReVals(FC, k, i)), ReMaxIn(ReVals(FC, k, i))}
ReSelect(FC, k) ==
    /\ k.x \in ({ReMaxIn(ReVals(FC, k, "x"))} \cup (IF Thorough THEN {ReMinIn(ReVals(FC, k, "x"))} ELSE {}))
    /\ (Len(ReUnits(k.fam)) = 3 => k.o = 0)
    /\ (k.fam \in {"GMRF", "LMRF", "CMRF"} =>
          /\ MrfDim(k.pd, k.dim) <= (IF Thorough THEN 5 ELSE 4)
          /\ k.a \in ReEnds(FC, k, "a")
          /\ (Thorough \/ k.b = ReMinIn(ReVals(FC, k, "b"))))
    /\ (k.fam = "Gaussian" /\ ~Thorough => k.a \in ReEnds(FC, k, "a") /\ k.g \in ReEnds(FC, k, "g"))
ReAllValid(k, tgt) == \A S \in SUBSET ReIdx : Valid(ReMix(k, tgt, S))
ReStates(fam) ==
    LET FC == FamConfigs(fam)
    IN { k @@ [re |-> [tgt |-> ReTarget(FC, k), done |-> <<>>, cached |-> <<>>]] :
           k \in {q \in FC : Valid(q) /\ ReSelect(FC, q) /\ ReAllValid(q, ReTarget(FC, q))} }

ReDoneSet(s) == {s.re.done[j] : j \in 1..Len(s.re.done)}
ReAssignedIdx(s, n) == UNION {ReUnits(s.fam)[s.re.done[j]].idx : j \in 1..n}       \* indices replaced by the first n assignments
ReCfgAfter(s, n) == ReMix(ReBase(s), s.re.tgt, ReAssignedIdx(s, n))
ReCur(s) == ReCfgAfter(s, Len(s.re.done))

ReEvaluate ==
    /\ c.re.cached = <<>>
    /\ c' = [c EXCEPT !.re.cached = <<ReCur(c)>>]
\* orders of assignment: the cyclic rotations of the units (every unit is assigned first in one order and every proper subset
\* of the units is the set of assigned units after a prefix of some order; two units: both orders)
ReMayAssign(s, u) ==
    /\ u \notin ReDoneSet(s)
    /\ (IF s.re.done = <<>> THEN TRUE ELSE u = (s.re.done[Len(s.re.done)] % Len(ReUnits(s.fam))) + 1)
ReAssign(u) ==
    /\ ReMayAssign(c, u)
    /\ c' = [c EXCEPT !.re.done = Append(@, u), !.re.cached = <<>>]
ReAssignStale(u) ==                               \* named deviation StaleCacheAfterAssign
    /\ ReMayAssign(c, u)
    /\ c' = [c EXCEPT !.re.done = Append(@, u)]
ReInit      == c \in UNION {ReStates(f) : f \in Fams \cap ReFamilies}
ReNext      == ReEvaluate \/ \E u \in 1..Len(ReUnits(c.fam)) : ReAssign(u)
ReNextStale == ReEvaluate \/ \E u \in 1..Len(ReUnits(c.fam)) : ReAssignStale(u)

\* what the object answers is computed from c.re.cached where something is cached, from the current parameters otherwise
ReassignIsFresh ==
    LET cur == ReCur(c)
    IN (c.re.cached # <<>> /\ c.re.cached[1] # cur) =>
         LET A == CaseOf(c.re.cached[1])  B == CaseOf(cur)
         IN A.logpdf = B.logpdf /\ A.grad = B.grad /\ A.cdf = B.cdf
\* the second configuration is a different distribution (non-vacuity of the facet): all units assigned => another density value
\* or another evaluation point
ReTargetDiffers ==
    Len(c.re.done) = Len(ReUnits(c.fam)) =>
         LET A == CaseOf(ReBase(c))  B == CaseOf(ReCur(c)) IN A.logpdf # B.logpdf \/ A.x # B.x \/ A.par # B.par

ReEmit ==
    (Emit /\ Len(c.re.done) = Len(ReUnits(c.fam)) /\ c.re.cached = <<>>) =>
        PrintT("@@CASE " \o ToJson(
            [kind |-> "reassign", fam |-> c.fam, cfg |-> ReBase(c), tgt |-> c.re.tgt, order |-> c.re.done,
             from |-> CaseOf(ReBase(c)),
             trail |-> [n \in 1..Len(c.re.done) |->
                          [unit |-> c.re.done[n], assign |-> ReUnits(c.fam)[c.re.done[n]].names,
                           expect |-> CaseOf(ReCfgAfter(c, n))]]]) \o " @@END")

Init == c \in {k \in Configs : Valid(k)}
Next == UNCHANGED c
Spec == Init /\ [][Next]_c
=============================================================================
