------------------------------ MODULE LinGauss ------------------------------
(***************************************************************************)
(* Linear-Gaussian inverse problems (properties C06 and C15).              *)
(*                                                                         *)
(* REFERENCE (what the properties talk about), in information form:        *)
(*     Lambda  = sum_i G_i^T P_i G_i + sum_j P0_j          (posterior precision)   *)
(*     rhs     = sum_i G_i^T P_i y_i + sum_j P0_j mu0_j                     *)
(*     mu_post = Lambda^-1 rhs,      cov_post = Lambda^-1                   *)
(* with G_i = A_i E the parameter-to-data matrix (E = matrix of the domain  *)
(* geometry's par2fun, identity for identity-like geometries), P_i the     *)
(* noise precisions, P0_j the precision(s) of the prior block(s).          *)
(*                                                                         *)
(* ALGORITHM-SHAPED definitions (one per code step) that must agree:       *)
(*   Linear RTO : stacked whitened operator  M  = [L_i G_i ; L0_j],        *)
(*                stacked whitened data      b~ = [L_i y_i ; L0_j mu0_j],  *)
(*                Step(x, e) = x + (M^T M)^-1 M^T (b~ + e - M x)  (= converged *)
(*                CGLS started at the current state x).  Invariants:       *)
(*                M^T M = Lambda, M^T b~ = rhs, Step(x,e) = mu_post + Lambda^-1 M^T e *)
(*                for EVERY current state x, (Lambda^-1 M^T)(Lambda^-1 M^T)^T = Lambda^-1. *)
(*   UGLA       : local Gaussian at x_k: prior ~ N(loc, s (D^T W D)^-1),   *)
(*                W = diag(((D z_k)^2 + beta)^-1/2); operator block        *)
(*                sqrt(1/s) W^1/2 D, right-hand-side block gamma W^1/2 D loc;  *)
(*                the draw is exact iff sqrt(1/s) * gamma = 1/s.           *)
(*   direct MAP : Tarantola (3.37)  x = mu0 + C0 G^T (G C0 G^T + Ce)^-1 (y - G mu0). *)
(*   ML         : (G^T P G)^-1 G^T P y  for full column rank G.            *)
(*   routing    : table of BayesianProblem's type based selection with the *)
(*                requirement  outcome in {closed form, Error}.            *)
(*   optimise   : polynomial forward models with a constructed stationary  *)
(*                point (gradient = 0, Hessian positive definite).         *)
(*                                                                         *)
(* Everything is integer / rational: precisions come from unit-triangular  *)
(* integer R (P = R^T R, cov = R^-1 R^-T, sqrtcov = R^-1, sqrtprec = R) or   *)
(* from diagonal entries in {1, 4} (cov 1/4, sqrtcov 1/2, sqrtprec 2), so  *)
(* Lambda, M, b~ are integer and only Lambda^-1 = adj/det is rational.     *)
(*   reassign   : ONE problem object whose inputs are re-assigned through the  *)
(*                public setters (two versions of every input): in every     *)
(*                reachable state the closed forms equal those of a freshly  *)
(*                built problem with the values currently assigned.          *)
(*   hard       : ILL-CONDITIONED instances of rto / ugla (one scalar datum *)
(*                with noise standard deviation sigma = 2^-se, se >= 16):     *)
(*                floating-point conjugate gradients need MORE than n steps;  *)
(*                mean and covariance in Kalman form, exact for EVERY sigma   *)
(*                (own INIT / NEXT: InitHard, NextHard; see the end).         *)
(* Code departures are NAMED DEVIATIONS (constant Dev), off in the deciding *)
(* configurations; a *.dev.cfg turns one on and expects a counterexample.  *)
(***************************************************************************)
EXTENDS Mat, FiniteSets, TLC, Json

CONSTANTS Part,       \* "rto" | "ugla" | "map" | "poly" | "route" | "reassign"
          Thorough,   \* BOOLEAN: wide instance
          Emit,       \* BOOLEAN: print one @@CASE per configuration
          Dev         \* "none" or the name of a deviation

VARIABLES c,          \* configuration record
          d,          \* quantities derived from c (computed once, at Init)
          x,          \* current state of the sampler (rational vector)
          k           \* index of the last perturbation: -1 none yet, 0 = zero vector, i = e_i

vars == <<c, d, x, k>>

Devs == {"none", "PriorMeanNotWhitened", "NoiseSqrtNotTransposed", "StackOrderSwapped", "UglaRhsUnscaled",
         "VectorCovBroadcast", "MatrixIgnoresGeometry", "MapUsesPrecForCov", "StaleCovAfterReassign"}
ASSUME Dev \in Devs /\ Part \in {"rto", "ugla", "map", "poly", "route", "reassign", "hard"}

\* ---------------------------------------------------------------------------
\* integer linear algebra (sequences of Int)
\* ---------------------------------------------------------------------------
RECURSIVE ISum(_)
ISum(s)     == IF s = <<>> THEN 0 ELSE Head(s) + ISum(Tail(s))
IDot(u, v)  == ISum([i \in 1..Len(u) |-> u[i] * v[i]])
IT(M)       == IF Len(M) = 0 THEN <<>> ELSE F([j \in 1..Len(M[1]) |-> [i \in 1..Len(M) |-> M[i][j]]])
IMM(A, B)   == LET BT == IT(B) IN F([i \in 1..Len(A) |-> [j \in 1..Len(BT) |-> IDot(A[i], BT[j])]])
IMV(A, v)   == F([i \in 1..Len(A) |-> IDot(A[i], v)])
IId(n)      == [i \in 1..n |-> [j \in 1..n |-> IF i = j THEN 1 ELSE 0]]
IZeroM(m,n) == [i \in 1..m |-> [j \in 1..n |-> 0]]
IZeroV(n)   == [i \in 1..n |-> 0]
IUnit(n, q) == [i \in 1..n |-> IF i = q THEN 1 ELSE 0]
IDiag(v)    == [i \in 1..Len(v) |-> [j \in 1..Len(v) |-> IF i = j THEN v[i] ELSE 0]]
IVAdd(u, v) == F([i \in 1..Len(u) |-> u[i] + v[i]])
IVSub(u, v) == F([i \in 1..Len(u) |-> u[i] - v[i]])
IVSc(a, v)  == F([i \in 1..Len(v) |-> a * v[i]])
IMAdd(A, B) == F([i \in 1..Len(A) |-> IVAdd(A[i], B[i])])
IMSub(A, B) == F([i \in 1..Len(A) |-> IVSub(A[i], B[i])])
IMSc(a, A)  == F([i \in 1..Len(A) |-> IVSc(a, A[i])])
IMinor(A, i, j) == LET n == Len(A)
                   IN F([a \in 1..(n - 1) |-> [b \in 1..(n - 1) |->
                           A[IF a < i THEN a ELSE a + 1][IF b < j THEN b ELSE b + 1]]])
RECURSIVE IDet(_)
IDet(A) == IF Len(A) = 1 THEN A[1][1]
           ELSE ISum([j \in 1..Len(A) |-> (IF j % 2 = 1 THEN 1 ELSE -1) * A[1][j] * IDet(IMinor(A, 1, j))])
\* adjugate: A * IAdj(A) = IDet(A) * I   (fraction free, no intermediate rationals)
IAdj(A) == LET n == Len(A)
           IN IF n = 1 THEN <<<<1>>>>
              ELSE F([i \in 1..n |-> [j \in 1..n |-> (IF (i + j) % 2 = 0 THEN 1 ELSE -1) * IDet(IMinor(A, j, i))]])
\* leading principal minors all positive  <=>  symmetric matrix positive definite
IPosDef(A) == A = IT(A) /\ \A q \in 1..Len(A) : IDet(F([i \in 1..q |-> [j \in 1..q |-> A[i][j]]])) > 0
QV(v, den)  == F([i \in 1..Len(v) |-> Q(v[i], den)])            \* integer vector / den
QM(A, den)  == F([i \in 1..Len(A) |-> QV(A[i], den)])
ICol(A, j)  == F([i \in 1..Len(A) |-> A[i][j]])
\* addition over the least common denominator (Rat.RAdd multiplies the denominators: 32-bit overflow for det > 46340)
RAddS(a, b) == LET g == Gcd(a[2], b[2]) IN Norm(a[1] * (b[2] \div g) + b[1] * (a[2] \div g), (a[2] \div g) * b[2])
VAddS(u, v) == F([i \in 1..Len(u) |-> RAddS(u[i], v[i])])
VSubS(u, v) == F([i \in 1..Len(u) |-> RAddS(u[i], RNeg(v[i]))])
\* rational matrices are inverted fraction-free: scale by the common denominator K, integer adjugate / determinant
RECURSIVE LcmSeq(_)
LcmSeq(s)   == IF s = <<>> THEN 1 ELSE LET t == LcmSeq(Tail(s)) IN (Head(s) \div Gcd(Head(s), t)) * t
DenV(v)     == LcmSeq([i \in 1..Len(v) |-> v[i][2]])
DenM(A)     == LcmSeq([i \in 1..Len(A) |-> DenV(A[i])])
ToIntV(v, K) == F([i \in 1..Len(v) |-> (v[i][1] * K) \div v[i][2]])
ToIntM(A, K) == F([i \in 1..Len(A) |-> ToIntV(A[i], K)])
RatInv(A)   == LET K == DenM(A) AK == ToIntM(A, K) IN QM(IMSc(K, IAdj(AK)), IDet(AK))
RatSolve(A, b) == LET K  == DenM(A)
                      AK == ToIntM(A, K)
                      K2 == DenV(b)
                      v  == IMV(IAdj(AK), ToIntV(b, K2))
                  IN F([i \in 1..Len(v) |-> RMul(Q(v[i], IDet(AK)), Q(K, K2))])

\* ---------------------------------------------------------------------------
\* catalogue of data
\* ---------------------------------------------------------------------------
AMat(m, n, v) ==
    CASE <<m, n>> = <<1, 2>> -> IF v = 1 THEN <<<<2, -1>>>> ELSE <<<<1, 2>>>>
      [] <<m, n>> = <<2, 2>> -> IF v = 1 THEN <<<<1, 2>>, <<0, -1>>>> ELSE <<<<2, 1>>, <<-1, 1>>>>
      [] <<m, n>> = <<3, 2>> -> IF v = 1 THEN <<<<1, 2>>, <<0, 1>>, <<-1, 1>>>> ELSE <<<<2, -1>>, <<1, 1>>, <<0, 2>>>>
      [] <<m, n>> = <<1, 3>> -> IF v = 1 THEN <<<<1, -1, 2>>>> ELSE <<<<0, 2, 1>>>>
      [] <<m, n>> = <<2, 3>> -> IF v = 1 THEN <<<<1, 0, 2>>, <<-1, 1, 1>>>> ELSE <<<<0, 2, -1>>, <<1, 1, 0>>>>
      [] <<m, n>> = <<3, 3>> -> IF v = 1 THEN <<<<1, 0, 2>>, <<-1, 1, 0>>, <<0, 2, 1>>>>
                                        ELSE <<<<2, 1, 0>>, <<0, -1, 1>>, <<1, 0, -1>>>>

YVec(m, v)   == [i \in 1..m |-> ((2 * i + 3 * v) % 5) - 2]
Mu0(n, mk)   == IF mk = "scalar" THEN [i \in 1..n |-> 2] ELSE [i \in 1..n |-> (2 * i) - 3]
MuB(n)       == [i \in 1..n |-> 3 * (i - 1)]              \* mean of the second block of a joint prior

Kinds   == <<"scal", "vec", "dmat", "full">>
FormsS  == <<"cov", "prec", "sqrtcov", "sqrtprec">>
NGF     == 16
GForm(i) == [kind |-> Kinds[((i - 1) \div 4) + 1], form |-> FormsS[((i - 1) % 4) + 1]]
\* prior forms: 1..16 Gaussian, 17..20 GMRF order 1,2 x delta 1,4, 21 GMRF order 0 delta 4, 22 joint (two stacked blocks)
NPF     == 22
PForm(j) == IF j <= 16 THEN [kind |-> GForm(j).kind, form |-> GForm(j).form, order |-> 0, delta |-> 0]
            ELSE IF j <= 20 THEN [kind |-> "gmrf", form |-> "gmrf", order |-> ((j - 17) % 2) + 1, delta |-> IF j <= 18 THEN 1 ELSE 4]
            ELSE IF j = 21 THEN [kind |-> "gmrf", form |-> "gmrf", order |-> 0, delta |-> 4]
            ELSE [kind |-> "joint", form |-> "sqrtprec", order |-> 0, delta |-> 0]

TriOff(i, j, g) == CASE <<i, j>> = <<1, 2>> -> (IF g = 1 THEN 2 ELSE -1)
                     [] <<i, j>> = <<1, 3>> -> (IF g = 1 THEN -1 ELSE 2)
                     [] OTHER -> 1
RTri(dd, g)  == [i \in 1..dd |-> [j \in 1..dd |-> IF i = j THEN 1 ELSE IF i > j THEN 0 ELSE TriOff(i, j, g)]]
DiagP(kind, dd, g) == [i \in 1..dd |-> IF kind = "scal" THEN 4 ELSE IF (i + g) % 2 = 0 THEN 4 ELSE 1]
ISq(p)       == IF p = 4 THEN 2 ELSE 1

\* square root of the precision (integer):  P = L^T L
GaussL(kind, dd, g) == IF kind = "full" THEN RTri(dd, g) ELSE IDiag([i \in 1..dd |-> ISq(DiagP(kind, dd, g)[i])])
\* 4 * covariance (integer): full: 4 S S^T with S = R^-1 = adj(R) (det 1); diagonal: 4/p
GaussC4(kind, dd, g) == IF kind = "full" THEN LET S == IAdj(RTri(dd, g)) IN IMSc(4, IMM(S, IT(S)))
                        ELSE IDiag([i \in 1..dd |-> 4 \div DiagP(kind, dd, g)[i]])
\* the parameter handed to cuqi.distribution.Gaussian for the given input form (rational scalar / vector / matrix)
GaussParam(kind, form, dd, g) ==
    IF kind = "full"
    THEN LET Rt == RTri(dd, g)
             S  == IAdj(Rt)
         IN MR(CASE form = "cov" -> IMM(S, IT(S)) [] form = "prec" -> IMM(IT(Rt), Rt)
                 [] form = "sqrtcov" -> S [] form = "sqrtprec" -> Rt)
    ELSE LET p == DiagP(kind, dd, g)
             val(i) == CASE form = "cov" -> Q(1, p[i]) [] form = "prec" -> R(p[i])
                         [] form = "sqrtcov" -> Q(1, ISq(p[i])) [] form = "sqrtprec" -> R(ISq(p[i]))
         IN CASE kind = "scal" -> val(1)
              [] kind = "vec"  -> [i \in 1..dd |-> val(i)]
              [] kind = "dmat" -> MDiag([i \in 1..dd |-> val(i)])
ParamShape(kind) == CASE kind = "scal" -> "scalar" [] kind = "vec" -> "vector" [] OTHER -> "matrix"

\* the four input forms describe ONE Gaussian:  cov * prec = I,  sqrtprec^T sqrtprec = prec,  sqrtcov sqrtcov^T = cov
FormsAgree(kind, dd, g) ==
    LET L  == GaussL(kind, dd, g)
        P  == IMM(IT(L), L)
        C4 == GaussC4(kind, dd, g)
    IN /\ IMM(C4, P) = IMSc(4, IId(dd))
       /\ kind = "full" => LET cv == GaussParam(kind, "cov", dd, g) pr == GaussParam(kind, "prec", dd, g)
                               sc == GaussParam(kind, "sqrtcov", dd, g) sp == GaussParam(kind, "sqrtprec", dd, g)
                           IN /\ MM(cv, pr) = MId(dd) /\ MM(MT(sp), sp) = pr /\ MM(sc, MT(sc)) = cv /\ pr = MR(P)
       /\ kind # "full" => LET one(f) == LET q == GaussParam(kind, f, dd, g)
                                         IN CASE kind = "scal" -> q [] kind = "vec" -> q[dd] [] OTHER -> q[dd][dd]
                           IN /\ RMul(one("cov"), one("prec")) = One /\ RSq(one("sqrtprec")) = one("prec")
                              /\ RSq(one("sqrtcov")) = one("cov") /\ one("prec") = R(P[dd][dd])

\* GMRF, zero boundary condition: difference operators row by row and the precision matrices of the docstring
GD(n, o) == CASE o = 0 -> IId(n)
              [] o = 1 -> [r \in 1..(n + 1) |-> [j \in 1..n |-> IF j = r THEN 1 ELSE IF j = r - 1 THEN -1 ELSE 0]]
              [] o = 2 -> [q \in 1..(n + 2) |-> [j \in 1..n |-> IF j = q - 1 THEN 2 ELSE IF j = q - 2 \/ j = q THEN -1 ELSE 0]]
GDocP(n, o) == [i \in 1..n |-> [j \in 1..n |->
                  CASE o = 0 -> (IF i = j THEN 1 ELSE 0)
                    [] o = 1 -> (IF i = j THEN 2 ELSE IF i - j \in {-1, 1} THEN -1 ELSE 0)
                    [] o = 2 -> (IF i = j THEN 6 ELSE IF i - j \in {-1, 1} THEN -4 ELSE IF i - j \in {-2, 2} THEN 1 ELSE 0)]]

\* prior blocks: sequence of [L |-> integer square-root precision, mu |-> integer mean]
PriorBlocks(pf, n, mk) ==
    CASE pf.kind = "gmrf"  -> << [L |-> IMSc(ISq(pf.delta), GD(n, pf.order)), mu |-> Mu0(n, mk)] >>
      [] pf.kind = "joint" -> << [L |-> RTri(n, 1), mu |-> Mu0(n, "vec")], [L |-> GaussL("vec", n, 1), mu |-> MuB(n)] >>
      [] OTHER             -> << [L |-> GaussL(pf.kind, n, 1), mu |-> Mu0(n, mk)] >>

RECURSIVE SumMats(_, _)
SumMats(s, zero) == IF s = <<>> THEN zero ELSE IMAdd(Head(s), SumMats(Tail(s), zero))
RECURSIVE SumVecs(_, _)
SumVecs(s, zero) == IF s = <<>> THEN zero ELSE IVAdd(Head(s), SumVecs(Tail(s), zero))
RECURSIVE Concat(_)
Concat(s) == IF s = <<>> THEN <<>> ELSE Head(s) \o Concat(Tail(s))

\* ===========================================================================
\* Part "rto": Linear RTO (C06)
\* ===========================================================================
Shapes == IF Thorough THEN {<<1, 2>>, <<2, 2>>, <<3, 2>>, <<1, 3>>, <<2, 3>>, <<3, 3>>} ELSE {<<1, 2>>, <<3, 2>>, <<2, 3>>}

\* single likelihood: noise form i, prior form j; mean kind and model kind vary with the indices so that every
\* combination occurs; quick = every noise form against two priors and every prior form against one noise form
Rto1 == { [kind |-> "rto", n |-> sh[2], nl |-> 1, m1 |-> sh[1], m2 |-> 0, av |-> av, i1 |-> i, i2 |-> 0, j |-> j,
           mk |-> IF (i + j) % 2 = 0 THEN "vec" ELSE "scalar",
           mdl |-> IF (i + (j \div 2) + sh[1]) % 2 = 0 THEN "matrix" ELSE "func"] :
            sh \in Shapes, av \in (IF Thorough THEN {1, 2} ELSE {1}), i \in 1..NGF, j \in 1..NPF }
SelRto1(r) == /\ (GForm(r.i1).kind = "full" => r.m1 >= 2)
              /\ (PForm(r.j).kind = "gmrf" /\ PForm(r.j).order = 2 => r.n >= 2)
              /\ (Thorough \/ r.j \in {13, 17} \/ r.i1 \in {16} \/ (r.i1 = 1 /\ r.m1 = 1))
              /\ (Thorough /\ r.av = 2 => (r.i1 + r.j) % 3 = 0)
\* two likelihoods (MultipleLikelihoodPosterior): different sizes, operators, noise forms
Rto2 == { [kind |-> "rto", n |-> n, nl |-> 2, m1 |-> ms[1], m2 |-> ms[2], av |-> 1, i1 |-> i, i2 |-> ((i * 5 + j) % NGF) + 1, j |-> j,
           mk |-> IF (i + j) % 2 = 0 THEN "vec" ELSE "scalar",
           mdl |-> IF (i + j) % 3 = 0 THEN "func" ELSE "matrix"] :
            n \in {2, 3}, ms \in {<<3, 1>>, <<1, 2>>, <<2, 3>>}, i \in 1..NGF, j \in 1..NPF }
SelRto2(r) == /\ (GForm(r.i1).kind = "full" => r.m1 >= 2) /\ (GForm(r.i2).kind = "full" => r.m2 >= 2)
              /\ (IF Thorough THEN (r.i1 + r.j) % 3 = 1 ELSE (r.i1 + 2 * r.j) % 16 = 3 /\ (r.n = 2 <=> r.m1 = 3))
RtoConfigs == {r \in Rto1 : SelRto1(r)} \cup {r \in Rto2 : SelRto2(r)}

RtoDerived(r) ==
    LET n    == r.n
        A1   == AMat(r.m1, n, r.av)
        L1   == GaussL(GForm(r.i1).kind, r.m1, 1)
        y1   == YVec(r.m1, 1)
        liks == IF r.nl = 1 THEN << [A |-> A1, L |-> L1, y |-> y1] >>
                ELSE << [A |-> A1, L |-> L1, y |-> y1],
                        [A |-> AMat(r.m2, n, 2), L |-> GaussL(GForm(r.i2).kind, r.m2, 2), y |-> YVec(r.m2, 2)] >>
        pbl  == PriorBlocks(PForm(r.j), n, r.mk)
        \* reference: information form
        Lam  == SumMats([q \in 1..Len(liks) |-> LET LA == IMM(liks[q].L, liks[q].A) IN IMM(IT(LA), LA)] \o
                        [q \in 1..Len(pbl) |-> IMM(IT(pbl[q].L), pbl[q].L)], IZeroM(n, n))
        rhs  == SumVecs([q \in 1..Len(liks) |-> LET LA == IMM(liks[q].L, liks[q].A) IN IMV(IT(LA), IMV(liks[q].L, liks[q].y))] \o
                        [q \in 1..Len(pbl) |-> IMV(IMM(IT(pbl[q].L), pbl[q].L), pbl[q].mu)], IZeroV(n))
        det  == IDet(Lam)
        adj  == IAdj(Lam)
        \* algorithm: stacked operator (forward rows), its adjoint as the implementation forms it, stacked data
        M    == Concat([q \in 1..Len(liks) |-> IMM(liks[q].L, liks[q].A)]) \o Concat([q \in 1..Len(pbl) |-> pbl[q].L])
        likAdj(q) == IF Dev = "NoiseSqrtNotTransposed"
                     THEN IMM(IT(liks[q].A), liks[q].L)                 \* A^T L  instead of  A^T L^T
                     ELSE IMM(IT(liks[q].A), IT(liks[q].L))
        adjBlocks == [q \in 1..Len(liks) |-> likAdj(q)] \o [q \in 1..Len(pbl) |-> IT(pbl[q].L)]
        \* n x N matrix applied by flag 2: blocks side by side
        Madj == F([a \in 1..n |-> Concat([q \in 1..Len(adjBlocks) |-> adjBlocks[q][a]])])
        dataBlocks == [q \in 1..Len(liks) |-> IMV(liks[q].L, liks[q].y)]
        bt   == Concat(IF Dev = "StackOrderSwapped" /\ Len(liks) = 2 THEN <<dataBlocks[2], dataBlocks[1]>> ELSE dataBlocks) \o
                Concat([q \in 1..Len(pbl) |-> IF Dev = "PriorMeanNotWhitened" THEN pbl[q].mu \o IZeroV(Len(pbl[q].L) - n)
                                                ELSE IMV(pbl[q].L, pbl[q].mu)])
        MtM  == IMM(Madj, M)
    IN [n |-> n, N |-> Len(M), liks |-> liks, pbl |-> pbl, Lam |-> Lam, rhs |-> rhs, det |-> det, adj |-> adj,
        M |-> M, Madj |-> Madj, bt |-> bt, MtM |-> MtM,
        detN |-> IDet(MtM), adjN |-> IAdj(MtM),
        mu |-> QV(IMV(adj, rhs), det), LamInv |-> QM(adj, det)]

\* One RTO transition from current state xs with perturbation index q: the least-squares problem
\* min || M z - (b~ + e) ||  solved from the starting point xs:  z = xs + (M^T M)^-1 M^T (b~ + e - M xs)
RtoStep(dd, xs, q) ==
    LET e    == IF q = 0 THEN IZeroV(dd.N) ELSE IUnit(dd.N, q)
        \* (M^T M)^-1 M^T (b~ + e): flag 2 applied to the perturbed data, normal matrix N = Madj M inverted fraction-free
        r0   == QV(IMV(IMM(dd.adjN, dd.Madj), IVAdd(dd.bt, e)), dd.detN)
        \* (M^T M)^-1 (M^T M) xs: the part of the correction that removes the starting point
        NN   == IMM(dd.adjN, dd.MtM)
        proj == IF NN = IMSc(dd.detN, IId(dd.n)) THEN xs ELSE MV(QM(NN, dd.detN), xs)
    IN VAddS(xs, VSubS(r0, proj))

RtoInitStates(n) == { VR(IZeroV(n)), VR([i \in 1..n |-> (3 * i) - 5]), [i \in 1..n |-> Q(i, 2)] }

\* ---- invariants of part rto ------------------------------------------------
RtoForms == Part = "rto" =>
    /\ \A q \in 1..Len(d.liks) : LET gi == GForm(IF q = 1 THEN c.i1 ELSE c.i2) IN FormsAgree(gi.kind, Len(d.liks[q].y), q)
    /\ PForm(c.j).kind \notin {"gmrf", "joint"} => FormsAgree(PForm(c.j).kind, c.n, 1)
    /\ PForm(c.j).kind = "gmrf" => LET D == GD(c.n, PForm(c.j).order) IN IMM(IT(D), D) = GDocP(c.n, PForm(c.j).order)
RtoNormalEquations == Part = "rto" =>
    /\ d.MtM = d.Lam                                   \* M^T M = Lambda  (adjoint = exact transpose, whitening squares to P)
    /\ d.Madj = IT(d.M)                                \* flag 2 is the transpose of flag 1
    /\ IMV(d.Madj, d.bt) = d.rhs                       \* M^T b~ = Lambda mu_post
    /\ IPosDef(d.Lam) /\ IMM(d.adj, d.Lam) = IMSc(d.det, IId(c.n))
RtoStepIsPosteriorDraw == Part = "rto" /\ k >= 0 =>
    x = (IF k = 0 THEN d.mu ELSE VAddS(d.mu, QV(ICol(IMM(d.adj, IT(d.M)), k), d.det)))   \* mu_post + Lambda^-1 M^T e_k, whatever the previous state
RtoCovariance == Part = "rto" =>
    LET TN == IMM(d.adj, IT(d.M))                      \* det * Lambda^-1 M^T
    IN IMM(TN, IT(TN)) = IMSc(d.det, d.adj)            \* (Lambda^-1 M^T)(Lambda^-1 M^T)^T = Lambda^-1

RtoCase == [kind |-> "rto", n |-> c.n, nl |-> c.nl, m |-> [q \in 1..c.nl |-> Len(d.liks[q].y)], mk |-> c.mk, mdl |-> c.mdl,
            i1 |-> c.i1, i2 |-> c.i2, j |-> c.j, av |-> c.av,
            A |-> [q \in 1..c.nl |-> d.liks[q].A], y |-> [q \in 1..c.nl |-> d.liks[q].y], Ln |-> [q \in 1..c.nl |-> d.liks[q].L],
            noise |-> [q \in 1..c.nl |-> LET gi == GForm(IF q = 1 THEN c.i1 ELSE c.i2)
                                         IN [kind |-> gi.kind, form |-> gi.form, shape |-> ParamShape(gi.kind),
                                             param_q |-> GaussParam(gi.kind, gi.form, Len(d.liks[q].y), q)]],
            prior |-> LET pf == PForm(c.j)
                      IN [kind |-> pf.kind, form |-> pf.form, order |-> pf.order, delta |-> pf.delta,
                          shape |-> ParamShape(pf.kind),
                          param_q |-> IF pf.kind \in {"gmrf", "joint"} THEN Zero ELSE GaussParam(pf.kind, pf.form, c.n, 1),
                          blocks |-> [q \in 1..Len(d.pbl) |-> [L |-> d.pbl[q].L, mu |-> d.pbl[q].mu]]],
            Lam |-> d.Lam, rhs |-> d.rhs, M |-> d.M, bt |-> d.bt, det |-> d.det,
            mu_q |-> d.mu, LamInv_q |-> d.LamInv]

\* ===========================================================================
\* Part "ugla": unadjusted Laplace approximation (C06)
\* ===========================================================================
\* smoothing beta = BN/BD, lattice of differences such that (D z)^2 + beta is the square of a rational
Betas     == << <<9, 16>>, <<16, 1>> >>                      \* 9/16: differences in {0, +-1};  16: differences in {0, +-3}
BetaStep  == <<1, 3>>
Scales    == << <<1, 1>>, <<4, 1>>, <<1, 4>> >>              \* s = 1, 4, 1/4
SqrtInvS  == << <<1, 1>>, <<1, 2>>, <<2, 1>> >>              \* sqrt(1/s)
ISqrtOpt(q) == IF \E r \in 0..64 : r * r = q THEN CHOOSE r \in 0..64 : r * r = q ELSE -1
RHasSqrt(a) == ISqrtOpt(a[1]) >= 0 /\ ISqrtOpt(a[2]) >= 0
RSqrt(a)    == Q(ISqrtOpt(a[1]), ISqrtOpt(a[2]))
UglaXk(n, u, st) == [i \in 1..n |-> st * (CASE u = 1 -> 1 [] u = 2 -> (IF i = 1 THEN 1 ELSE 0) [] u = 3 -> (IF i = n THEN -1 ELSE 0)
                                            [] u = 4 -> 0 [] u = 5 -> (IF i = 1 THEN 0 ELSE 1))]
UglaLoc(n, lk, st) == CASE lk = "zero" -> IZeroV(n) [] lk = "scalar" -> [i \in 1..n |-> st]
                        [] lk = "vec" -> [i \in 1..n |-> IF i = 1 THEN st ELSE 0]
UglaConfigs ==
    { [kind |-> "ugla", n |-> sh[2], m |-> sh[1], av |-> 1, i1 |-> i, lk |-> lk, s |-> s, b |-> b, u |-> u, wv |-> wv] :
        sh \in (IF Thorough THEN {<<3, 2>>, <<1, 2>>, <<2, 2>>, <<3, 3>>} ELSE {<<3, 2>>, <<1, 2>>}),
        i \in {2, 7, 9, 13, 16}, lk \in {"zero", "scalar", "vec"}, s \in 1..3, b \in 1..2, u \in 1..5, wv \in {0, 1} }
\* the point where the weights are evaluated lies on the perfect-square lattice
UglaLattice(r) ==
    LET st == BetaStep[r.b]
        zk == IF r.wv = 1 THEN IVSub(UglaXk(r.n, r.u, st), UglaLoc(r.n, r.lk, st)) ELSE UglaXk(r.n, r.u, st)
        dz == IMV(GD(r.n, 1), zk)
    IN \A q \in 1..Len(dz) : RHasSqrt(RAdd(R(dz[q] * dz[q]), Q(Betas[r.b][1], Betas[r.b][2])))
SelUgla(r) == /\ (GForm(r.i1).kind = "full" => r.m >= 2)
              /\ UglaLattice(r)
              /\ (r.lk = "zero" => r.wv = 0)
              /\ (r.n = 3 => r.s = 1 /\ r.b = 1)
              /\ (Thorough \/ ((r.i1 + r.u + r.s) % 3 = 0 /\ (r.b = 1 \/ r.u <= 2)))

UglaDerived(r) ==
    LET n    == r.n
        A    == AMat(r.m, n, r.av)
        L1   == GaussL(GForm(r.i1).kind, r.m, 1)
        P    == IMM(IT(L1), L1)
        y    == YVec(r.m, 1)
        D    == GD(n, 1)
        st   == BetaStep[r.b]
        xk   == UglaXk(n, r.u, st)
        loc  == UglaLoc(n, r.lk, st)
        zk   == IF r.wv = 1 THEN IVSub(xk, loc) ELSE xk          \* point where the weights are evaluated
        dz   == IMV(D, zk)
        beta == Q(Betas[r.b][1], Betas[r.b][2])
        r2   == [q \in 1..Len(dz) |-> RAdd(R(dz[q] * dz[q]), beta)]
        ok   == \A q \in 1..Len(dz) : RHasSqrt(r2[q])
        w    == [q \in 1..Len(dz) |-> IF ok THEN RInv(RSqrt(r2[q])) ELSE One]        \* ((D z)^2 + beta)^(-1/2)
        s    == Q(Scales[r.s][1], Scales[r.s][2])
        opf  == Q(SqrtInvS[r.s][1], SqrtInvS[r.s][2])            \* factor on the prior block of the operator: sqrt(1/s)
        rhf  == IF Dev = "UglaRhsUnscaled" THEN One ELSE opf     \* factor on the prior block of the right-hand side
        AtPA == MR(IMM(IT(A), IMM(P, A)))
        DtWD == MM(MT(MR(D)), MM(MDiag(w), MR(D)))
        \* documented local Gaussian: likelihood N(Ax, P^-1), prior N(loc, s (D^T W D)^-1)
        Lam  == MAdd(AtPA, MScale(RInv(s), DtWD))
        rhsD == VAdd(VR(IMV(IT(A), IMV(P, y))), VScale(RInv(s), MV(DtWD, VR(loc))))
        \* algorithm: normal equations of the stacked least-squares problem  M = [L A; opf W^1/2 D],  b = [L y; rhf W^1/2 D loc]
        MtM  == MAdd(AtPA, MScale(RMul(opf, opf), DtWD))
        Mtb  == VAdd(VR(IMV(IT(A), IMV(P, y))), VScale(RMul(opf, rhf), MV(DtWD, VR(loc))))
    IN [n |-> n, ok |-> ok, A |-> A, L1 |-> L1, y |-> y, D |-> D, xk |-> xk, loc |-> loc, beta |-> beta, s |-> s, w |-> w,
        Lam |-> Lam, rhsD |-> rhsD, MtM |-> MtM, Mtb |-> Mtb,
        K |-> DenM(Lam), LamK |-> ToIntM(Lam, DenM(Lam)),
        LamInv |-> IF ok THEN RatInv(Lam) ELSE Lam,
        mu |-> IF ok THEN RatSolve(Lam, rhsD) ELSE rhsD,
        Ne |-> r.m + Len(D)]

UglaStep(dd) == RatSolve(dd.MtM, dd.Mtb)             \* converged CGLS: solution of the normal equations (no dependence on the start)

UglaStepIsLocalGaussianDraw == Part = "ugla" =>
    /\ d.ok                                              \* every configuration is on the perfect-square lattice
    /\ MSym(d.Lam) /\ IPosDef(d.LamK) /\ IMM(IAdj(d.LamK), d.LamK) = IMSc(IDet(d.LamK), IId(c.n))
    /\ d.LamInv = QM(IMSc(d.K, IAdj(d.LamK)), IDet(d.LamK))
    /\ d.MtM = d.Lam                                     \* covariance of the draw = covariance of the local Gaussian
    /\ (k = 0 => x = d.mu)                               \* offset of the draw = mean of the documented local Gaussian

UglaCase == [kind |-> "ugla", n |-> c.n, m |-> c.m, i1 |-> c.i1, lk |-> c.lk, wv |-> c.wv, u |-> c.u, si |-> c.s, bi |-> c.b,
             A |-> d.A, y |-> d.y, Ln |-> d.L1,
             noise |-> LET gi == GForm(c.i1) IN [kind |-> gi.kind, form |-> gi.form, shape |-> ParamShape(gi.kind),
                                                 param_q |-> GaussParam(gi.kind, gi.form, c.m, 1)],
             D |-> d.D, xk |-> d.xk, loc |-> d.loc, beta_q |-> d.beta, scale_q |-> d.s, w_q |-> d.w,
             Lam_q |-> d.Lam, LamInv_q |-> d.LamInv, mu_q |-> d.mu, Ne |-> d.Ne]

\* ===========================================================================
\* Part "map": closed forms of BayesianProblem (C15)
\* ===========================================================================
Geos == {"default", "cont", "disc", "step", "scale"}
\* matrix of par2fun: identity; StepExpansion(grid of 3 nodes, 2 steps): nodes {0,1} <- p1, node 2 <- p2; MappedGeometry x -> 2x
GeoE(geo, n) == CASE geo = "step" -> <<<<1, 0>>, <<1, 0>>, <<0, 1>>>>
                  [] geo = "scale" -> IMSc(2, IId(n))
                  [] OTHER -> IId(n)
GeoIdentityLike(geo) == geo \in {"default", "cont", "disc"}
MapConfigs ==
    { [kind |-> "map", m |-> sh[1], na |-> sh[2], geo |-> geo, av |-> av, i1 |-> i, j |-> j,
       mk |-> IF (i + j) % 2 = 0 THEN "vec" ELSE "scalar", mdl |-> mdl] :
        sh \in Shapes, geo \in Geos, av \in (IF Thorough THEN {1, 2} ELSE {1}), i \in 1..NGF, j \in 1..21, mdl \in {"matrix", "func"} }
SelMap(r) == /\ (GForm(r.i1).kind = "full" => r.m >= 2)
             /\ (r.geo = "step" => r.na = 3)
             /\ (PForm(r.j).kind = "gmrf" => r.geo \in {"default", "cont"})
             /\ (IF Thorough THEN \/ (GForm(r.i1).form = "cov" /\ PForm(r.j).form \in {"cov", "gmrf"})   \* closed-form route: full product
                                   \/ /\ (r.av = 2 => (r.i1 + r.j) % 4 = 0 /\ r.geo = "default")
                                      /\ (r.geo \in {"cont", "disc"} => (r.i1 + r.j) % 4 = 1)
                                      /\ (r.geo = "scale" => (r.i1 + r.j) % 2 = 0)
                 ELSE /\ (r.j \in {1, 5, 13, 17} \/ r.i1 \in {1, 5})
                      /\ (r.geo \in {"cont", "disc"} => r.i1 = 5 /\ r.j \in {1, 13})
                      /\ (r.geo \in {"step", "scale"} => r.i1 \in {1, 5, 13} /\ r.j \in {1, 5, 13})
                      /\ (r.mdl = "func" => (r.i1 + r.j) % 2 = 0 \/ r.geo \in {"step", "scale"}))

MapDerived(r) ==
    LET A    == AMat(r.m, r.na, r.av)
        E    == GeoE(r.geo, r.na)
        n    == Len(E[1])                                \* number of parameters
        G    == IMM(A, E)                                \* parameter -> data
        gi   == GForm(r.i1)
        pf   == PForm(r.j)
        Le   == GaussL(gi.kind, r.m, 1)
        Pe   == IMM(IT(Le), Le)
        Ce4  == GaussC4(gi.kind, r.m, 1)
        y    == YVec(r.m, 1)
        pbl  == PriorBlocks(pf, n, r.mk)
        P0   == IMM(IT(pbl[1].L), pbl[1].L)
        mu0  == pbl[1].mu
        Lam  == IMAdd(IMM(IT(G), IMM(Pe, G)), P0)
        rhs  == IVAdd(IMV(IT(G), IMV(Pe, y)), IMV(P0, mu0))
        det  == IDet(Lam)
        adj  == IAdj(Lam)
        GtPG == IMM(IT(G), IMM(Pe, G))
        full == Rank(MR(G)) = n
        \* direct route (both Gaussians given by covariances): Tarantola (3.37) as the implementation evaluates it
        cov  == gi.form = "cov" /\ pf.kind # "gmrf" /\ pf.form = "cov"
        C04  == IF pf.kind = "gmrf" THEN IZeroM(n, n) ELSE GaussC4(pf.kind, n, 1)
        Gi   == IF Dev = "MatrixIgnoresGeometry" /\ r.mdl = "matrix" /\ Len(A[1]) = n THEN A ELSE G   \* matrix the route works with
        C04i == IF Dev = "MapUsesPrecForCov" THEN IMSc(4, P0) ELSE C04
        Ce4i == IF Dev = "VectorCovBroadcast" /\ gi.kind = "vec"
                THEN [a \in 1..r.m |-> [b \in 1..r.m |-> Ce4[b][b]]]                        \* row-broadcast of the variance vector
                ELSE Ce4
        S4   == IMAdd(IMM(Gi, IMM(C04i, IT(Gi))), Ce4i)                                        \* 4 (G C0 G^T + Ce)
        resid == IVSub(y, IMV(Gi, mu0))
        tar  == IF cov /\ IDet(S4) # 0
                THEN VAdd(VR(mu0), QV(IMV(C04i, IMV(IT(Gi), IMV(IAdj(S4), resid))), IDet(S4)))
                ELSE VR(mu0)
    IN [n |-> n, A |-> A, E |-> E, G |-> G, Le |-> Le, Pe |-> Pe, y |-> y, pbl |-> pbl, P0 |-> P0, mu0 |-> mu0,
        Lam |-> Lam, rhs |-> rhs, det |-> det, adj |-> adj, cov |-> cov, S4 |-> S4, C04 |-> C04, Ce4 |-> Ce4, tar |-> tar,
        mu |-> QV(IMV(adj, rhs), det), LamInv |-> QM(adj, det),
        fullrank |-> full,
        xml |-> IF full THEN QV(IMV(IAdj(GtPG), IMV(IT(G), IMV(Pe, y))), IDet(GtPG)) ELSE VR(IZeroV(n)),
        GtPG |-> GtPG]

\* --- routing table of BayesianProblem (type based selection), abstractly ---------------------------------------
PriorTypes == {"Gaussian", "GMRF", "LMRF", "CMRF", "Other"}
LikTypes   == {"Gaussian", "Other"}
ModelTypes == {"Linear", "NonLinear"}
MapRoute(pt, lt, mt, small) == IF pt = "Gaussian" /\ lt = "Gaussian" /\ mt = "Linear" /\ small THEN "direct" ELSE "optimise"
MLRoute(pt, lt, mt, small)  == "optimise"
SampleRoute(pt, lt, mt, small, grad) ==
    IF pt = "Gaussian" /\ lt = "Gaussian" /\ mt = "Linear" /\ small THEN "direct"
    ELSE IF pt \in {"Gaussian", "GMRF"} /\ lt = "Gaussian" /\ mt = "Linear" THEN "LinearRTO"
    ELSE IF pt = "LMRF" /\ lt = "Gaussian" THEN "UGLA"
    ELSE IF grad /\ pt \notin {"Other"} THEN "NUTS"
    ELSE IF pt \in {"Gaussian", "GMRF"} /\ lt = "Gaussian" THEN "pCN"
    ELSE "Error"
\* what a route may return:  direct -> the closed form of the linear-Gaussian problem (only valid if the problem IS
\* linear-Gaussian, and the information it reads must exist: covariances) or Error; optimise -> a stationary point or Error
LinearGaussian(pt, lt, mt) == pt \in {"Gaussian", "GMRF"} /\ lt = "Gaussian" /\ mt = "Linear"
RouteSound == Part = "route" =>
    \A pt \in PriorTypes, lt \in LikTypes, mt \in ModelTypes, small \in BOOLEAN, grad \in BOOLEAN :
        /\ (MapRoute(pt, lt, mt, small) = "direct" => LinearGaussian(pt, lt, mt))
        /\ (SampleRoute(pt, lt, mt, small, grad) = "direct" => LinearGaussian(pt, lt, mt) /\ pt # "GMRF")
        /\ (SampleRoute(pt, lt, mt, small, grad) = "LinearRTO" => LinearGaussian(pt, lt, mt))
        /\ MapRoute(pt, lt, mt, small) \in {"direct", "optimise"}
        /\ (LinearGaussian(pt, lt, mt) => SampleRoute(pt, lt, mt, small, grad) \in {"direct", "LinearRTO"})
RouteCase == [kind |-> "route",
              table |-> { [prior |-> pt, lik |-> lt, model |-> mt, small |-> small, map |-> MapRoute(pt, lt, mt, small),
                           sample |-> SampleRoute(pt, lt, mt, small, TRUE), lingauss |-> LinearGaussian(pt, lt, mt)] :
                          pt \in PriorTypes, lt \in LikTypes, mt \in ModelTypes, small \in BOOLEAN }]

\* ---- invariants of part map --------------------------------------------------
MapReference == Part = "map" =>
    /\ IPosDef(d.Lam) /\ IMM(d.adj, d.Lam) = IMSc(d.det, IId(d.n))
    /\ d.mu = QV(IMV(d.adj, d.rhs), d.det)                          \* Lambda mu_post = rhs: stationarity of the log-posterior
    /\ FormsAgree(GForm(c.i1).kind, c.m, 1)
    /\ (PForm(c.j).kind # "gmrf" => FormsAgree(PForm(c.j).kind, d.n, 1))
    /\ (d.fullrank => /\ IPosDef(d.GtPG)                                          \* normal equations of the likelihood
                       /\ IMM(IAdj(d.GtPG), d.GtPG) = IMSc(IDet(d.GtPG), IId(d.n)))
\* the direct route returns the posterior mean (Tarantola = information form), for every way the covariances are
\* written and every geometry; push-through identity  Lambda C0 G^T = G^T Pe (G C0 G^T + Ce)
MapDirectIsPosteriorMean == Part = "map" /\ d.cov =>
    /\ d.tar = d.mu
    /\ IMM(d.Lam, IMM(d.C04, IT(d.G))) = IMM(IT(d.G), IMM(d.Pe, d.S4))
\* every route: outcome in {closed form, Error}; the estimate of both routes is the unique stationary point
MapOutcome == Part = "map" =>
    LET route == MapRoute(IF PForm(c.j).kind = "gmrf" THEN "GMRF" ELSE "Gaussian", "Gaussian", "Linear", TRUE)
    IN /\ (route = "direct" /\ d.cov => d.tar = d.mu)
       /\ (route = "optimise" => d.det # 0)                         \* unique maximiser exists: Lambda x = rhs

MapCase == [kind |-> "map", n |-> d.n, m |-> c.m, na |-> c.na, geo |-> c.geo, mk |-> c.mk, mdl |-> c.mdl, i1 |-> c.i1, j |-> c.j, av |-> c.av,
            A |-> d.A, E |-> d.E, G |-> d.G, y |-> d.y, Ln |-> d.Le,
            noise |-> LET gi == GForm(c.i1) IN [kind |-> gi.kind, form |-> gi.form, shape |-> ParamShape(gi.kind),
                                                param_q |-> GaussParam(gi.kind, gi.form, c.m, 1)],
            prior |-> LET pf == PForm(c.j)
                      IN [kind |-> pf.kind, form |-> pf.form, order |-> pf.order, delta |-> pf.delta, shape |-> ParamShape(pf.kind),
                          param_q |-> IF pf.kind = "gmrf" THEN Zero ELSE GaussParam(pf.kind, pf.form, d.n, 1),
                          blocks |-> [q \in 1..Len(d.pbl) |-> [L |-> d.pbl[q].L, mu |-> d.pbl[q].mu]]],
            route |-> MapRoute(IF PForm(c.j).kind = "gmrf" THEN "GMRF" ELSE "Gaussian", "Gaussian", "Linear", TRUE),
            sroute |-> SampleRoute(IF PForm(c.j).kind = "gmrf" THEN "GMRF" ELSE "Gaussian", "Gaussian", "Linear", TRUE, TRUE),
            covforms |-> d.cov, Lam |-> d.Lam, rhs |-> d.rhs, mu_q |-> d.mu, LamInv_q |-> d.LamInv,
            fullrank |-> d.fullrank, xml_q |-> d.xml, GtPG |-> d.GtPG, Pe |-> d.Pe]

\* ===========================================================================
\* Part "poly": optimisation route on polynomial forward models (C15)
\* ===========================================================================
\* a polynomial in (x1, x2) is a sequence of terms [c |-> integer coefficient, e |-> <<e1, e2>>]
PTerm(co, e1, e2) == [c |-> co, e |-> <<e1, e2>>]
PolyModels == [ cubic |-> << << PTerm(10, 0, 1), PTerm(-10, 3, 0), PTerm(5, 2, 0), PTerm(6, 1, 0) >> >>,      \* Model docstring
                quad2 |-> << << PTerm(1, 2, 0), PTerm(1, 0, 1) >>, << PTerm(1, 1, 1), PTerm(-2, 0, 1), PTerm(1, 0, 0) >> >> ]
PEval(p, xs)  == RSumSeq([t \in 1..Len(p) |-> RMul(R(p[t].c), RMul(RPow(xs[1], p[t].e[1]), RPow(xs[2], p[t].e[2])))])
PDiff(p, v)   == [t \in 1..Len(p) |-> IF p[t].e[v] = 0 THEN PTerm(0, 0, 0)
                                      ELSE [c |-> p[t].c * p[t].e[v],
                                            e |-> IF v = 1 THEN <<p[t].e[1] - 1, p[t].e[2]>> ELSE <<p[t].e[1], p[t].e[2] - 1>>]]
PolyPoints == << <<R(1), R(1)>>, <<Q(1, 2), R(-1)>>, <<R(0), Q(3, 2)>>, <<R(-1), Q(1, 2)>> >>
PolyResid  == << <<Q(1, 2), R(-1)>>, <<Q(-1, 4), Q(1, 2)>>, <<Zero, Zero>> >>
PolyConfigs == { [kind |-> "poly", model |-> mo, xs |-> xs, r |-> rr, pe |-> pe, px |-> px] :
                   mo \in {"cubic", "quad2"}, xs \in 1..4, rr \in 1..3, pe \in {1, 4}, px \in {1, 4} }
PolyDerived(r) ==
    LET Fm   == PolyModels[r.model]
        q    == Len(Fm)
        xs   == PolyPoints[r.xs]
        res  == [a \in 1..q |-> PolyResid[r.r][a]]
        Fx   == [a \in 1..q |-> PEval(Fm[a], xs)]
        y    == VAdd(Fx, res)
        J    == [a \in 1..q |-> [v \in 1..2 |-> PEval(PDiff(Fm[a], v), xs)]]
        pe   == R(r.pe)
        px   == R(r.px)
        mu   == VSub(xs, VScale(RDiv(pe, px), MV(MT(J), res)))            \* makes xs a stationary point
        \* gradient of Phi(x) = pe/2 |y - F(x)|^2 + px/2 |x - mu|^2  from the differentiated polynomials
        grad(z) == VAdd(VScale(RNeg(pe), MV(MT([a \in 1..q |-> [v \in 1..2 |-> PEval(PDiff(Fm[a], v), z)]]),
                                            VSub(y, [a \in 1..q |-> PEval(Fm[a], z)]))),
                        VScale(px, VSub(z, mu)))
        phi(z)  == RAdd(RMul(RMul(Half, pe), Norm2(VSub(y, [a \in 1..q |-> PEval(Fm[a], z)]))),
                        RMul(RMul(Half, px), Norm2(VSub(z, mu))))
        hess == [u \in 1..2 |-> [v \in 1..2 |->
                   RAdd(RMul(pe, RSub(RSumSeq([a \in 1..q |-> RMul(J[a][u], J[a][v])]),
                                     RSumSeq([a \in 1..q |-> RMul(res[a], PEval(PDiff(PDiff(Fm[a], u), v), xs))]))),
                        IF u = v THEN px ELSE Zero)]]
        \* directional second derivatives u^T H u along the axes and diagonals (local strict minimum of Phi iff all > 0 and det > 0)
        dirs == {<<1, 0>>, <<0, 1>>, <<1, 1>>, <<1, -1>>}
    IN [F |-> Fm, q |-> q, xs |-> xs, y |-> y, mu |-> mu, pe |-> pe, px |-> px, res |-> res,
        grad0 |-> grad(xs), hess |-> hess,
        pd |-> RLt(Zero, hess[1][1]) /\ RLt(Zero, RSub(RMul(hess[1][1], hess[2][2]), RMul(hess[1][2], hess[2][1]))),
        curv |-> \A u \in dirs : RLt(Zero, Dot(VR(u), MV(hess, VR(u)))),
        phi0 |-> phi(xs),
        gradF |-> [a \in 1..q |-> [v \in 1..2 |-> PDiff(Fm[a], v)]]]
\* constructed maximiser: gradient vanishes, Hessian of the negative log-posterior symmetric and (pd) positive definite
PolyStationary == Part = "poly" =>
    /\ d.grad0 = VZero(2)
    /\ (d.pd => d.curv)
    /\ d.phi0 = RMul(Half, RAdd(RMul(d.pe, Norm2(d.res)), RMul(d.px, Norm2(VSub(d.xs, d.mu)))))
    /\ d.hess[1][2] = d.hess[2][1]
PolyCase == [kind |-> "poly", model |-> c.model, xs |-> c.xs, r |-> c.r, F |-> d.F, gradF |-> d.gradF, q |-> d.q,
             xstar_q |-> d.xs, y_q |-> d.y, mu_q |-> d.mu, pe |-> c.pe, px |-> c.px, res_q |-> d.res, hess_q |-> d.hess, pd |-> d.pd]

\* ===========================================================================
\* Part "reassign": sequences on ONE BayesianProblem (C15, round 4)
\* ===========================================================================
\* Every input of the linear-Gaussian problem exists in two VERSIONS (same dimensions, same model, same input form, other
\* values): prior mean, parameter of the prior, parameter of the noise, data.  The abstract state of the one problem
\* object is the version currently assigned to each of the four fields plus the version of the covariance matrix held by
\* the cache of each Gaussian (0 = empty; filled by compute_cov()).  Actions: ReWarm (compute_cov() of both Gaussians),
\* ReAssign(f) (public setter of field f with the value of version 2; the INTENDED design empties the cache of the
\* Gaussian whose parameter is assigned).  What the closed-form route returns in a state is the closed form evaluated
\* with the covariance it READS (the cached matrix if there is one).  ReassignIsFresh: in every reachable state this
\* equals the closed form of a freshly built problem with the currently assigned values (the mixed configuration).
\* Deviation StaleCovAfterReassign: the setter keeps the cached covariance of the previous value.
ReFields   == {"mean", "prior", "noise", "data"}
RDiagP(kind, dd, v) == IF kind = "scal" /\ v = 2 THEN [i \in 1..dd |-> 16] ELSE DiagP(kind, dd, v)
RISq(p)      == CASE p = 16 -> 4 [] p = 4 -> 2 [] OTHER -> 1
RGaussL(kind, dd, v) == IF kind = "full" THEN RTri(dd, v) ELSE IDiag([i \in 1..dd |-> RISq(RDiagP(kind, dd, v)[i])])
RGaussParam(kind, form, dd, v) ==
    IF kind = "full" THEN GaussParam(kind, form, dd, v)
    ELSE LET p == RDiagP(kind, dd, v)
             val(i) == CASE form = "cov" -> Q(1, p[i]) [] form = "prec" -> R(p[i])
                         [] form = "sqrtcov" -> Q(1, RISq(p[i])) [] form = "sqrtprec" -> R(RISq(p[i]))
         IN CASE kind = "scal" -> val(1)
              [] kind = "vec"  -> [i \in 1..dd |-> val(i)]
              [] kind = "dmat" -> MDiag([i \in 1..dd |-> val(i)])
\* the parameter of version v, read as the form says, describes the Gaussian with square-root precision RGaussL
RFormOk(kind, form, dd, v) ==
    LET L  == RGaussL(kind, dd, v)
        P  == MR(IMM(IT(L), L))
        q  == RGaussParam(kind, form, dd, v)
        Mq == CASE kind = "scal" -> MDiag([i \in 1..dd |-> q]) [] kind = "vec" -> MDiag(q) [] OTHER -> q
    IN CASE form = "cov" -> MM(Mq, P) = MId(dd) [] form = "prec" -> Mq = P
         [] form = "sqrtcov" -> MM(MM(Mq, MT(Mq)), P) = MId(dd) [] form = "sqrtprec" -> MM(MT(Mq), Mq) = P
RMu(n, mk, v)    == IF v = 1 THEN Mu0(n, mk) ELSE IF mk = "scalar" THEN [i \in 1..n |-> -1] ELSE [i \in 1..n |-> (3 * (i % 2)) - 1]
RDelta(pf, v)    == IF v = 1 THEN pf.delta ELSE IF pf.delta = 1 THEN 4 ELSE 1
RPriorL(pf, n, v) == IF pf.kind = "gmrf" THEN IMSc(ISq(RDelta(pf, v)), GD(n, pf.order)) ELSE RGaussL(pf.kind, n, v)

ReShapes == IF Thorough THEN {<<3, 2>>, <<2, 3>>, <<2, 2>>} ELSE {<<3, 2>>, <<2, 3>>}
ReConfigs ==
    { [kind |-> "reassign", m |-> sh[1], na |-> sh[2], av |-> 1, i1 |-> i, j |-> j,
       \* few scalar means: the closed-form route refuses them (dimension mismatch), which is an accepted outcome but tests little
       mk |-> IF i % 8 = 3 THEN "scalar" ELSE "vec", mdl |-> IF (i + (j \div 4)) % 2 = 0 THEN "matrix" ELSE "func"] :
        sh \in ReShapes, i \in 1..NGF, j \in 1..20 }
SelRe(r) == /\ (PForm(r.j).kind = "gmrf" => r.j \in {17, 20} /\ r.i1 \in {1, 8, 14})
            /\ (IF Thorough THEN r.m = 3 \/ r.i1 = r.j \/ r.i1 + r.j = 17 \/ r.j > 16
                ELSE \/ r.m = 3 /\ (r.i1 = r.j \/ r.i1 + r.j = 17 \/ r.j > 16)
                     \/ r.m = 2 /\ r.i1 = r.j /\ r.i1 \in {1, 6, 11, 16})

ReDerived(r) ==
    LET A    == AMat(r.m, r.na, r.av)
        n    == r.na
        gi   == GForm(r.i1)
        pf   == PForm(r.j)
        ver(v) == LET Lp == RPriorL(pf, n, v)
                      Le == RGaussL(gi.kind, r.m, v)
                      P0 == IMM(IT(Lp), Lp)
                      Pe == IMM(IT(Le), Le)
                  IN [mu0 |-> RMu(n, r.mk, v), y |-> YVec(r.m, v), Lp |-> Lp, Le |-> Le, P0 |-> P0, Pe |-> Pe,
                      C0 |-> QM(IAdj(P0), IDet(P0)), Ce |-> QM(IAdj(Pe), IDet(Pe)),
                      delta |-> RDelta(pf, v),
                      pparam |-> IF pf.kind = "gmrf" THEN R(RDelta(pf, v)) ELSE RGaussParam(pf.kind, pf.form, n, v),
                      nparam |-> RGaussParam(gi.kind, gi.form, r.m, v)]
    IN [n |-> n, A |-> A, G |-> A, fullrank |-> Rank(MR(A)) = n, ver |-> F([v \in 1..2 |-> ver(v)])]

\* closed forms (information form) of the problem whose four fields carry the versions vm, vp, vn, vd
RePost(dd, vm, vp, vn, vd) ==
    LET G    == dd.G
        P0   == dd.ver[vp].P0
        Pe   == dd.ver[vn].Pe
        mu0  == dd.ver[vm].mu0
        y    == dd.ver[vd].y
        GtPG == IMM(IT(G), IMM(Pe, G))
        Lam  == IMAdd(GtPG, P0)
        rhs  == IVAdd(IMV(IT(G), IMV(Pe, y)), IMV(P0, mu0))
        det  == IDet(Lam)
        adj  == IAdj(Lam)
    IN [Lam |-> Lam, rhs |-> rhs, det |-> det, adj |-> adj, mu |-> QV(IMV(adj, rhs), det), LamInv |-> QM(adj, det),
        GtPG |-> GtPG,
        xml |-> IF dd.fullrank THEN QV(IMV(IAdj(GtPG), IMV(IT(G), IMV(Pe, y))), IDet(GtPG)) ELSE VR(IZeroV(dd.n))]
ReFresh(dd, s) == RePost(dd, s.mean, s.prior, s.noise, s.data)
\* version of the covariance the closed-form route reads: the cached matrix if the cache is filled, else the assigned one
ReRead(cache, cur) == IF cache # 0 THEN cache ELSE cur
ReObs(dd, s)   == RePost(dd, s.mean, ReRead(s.pc, s.prior), ReRead(s.nc, s.noise), s.data)

ReInitState == [mean |-> 1, prior |-> 1, noise |-> 1, data |-> 1, pc |-> 0, nc |-> 0]

\* ---- invariants of part reassign ------------------------------------------------
ReReference == Part = "reassign" =>
    LET fr == ReFresh(d, x) gi == GForm(c.i1) pf == PForm(c.j)
    IN /\ IPosDef(fr.Lam) /\ IMM(fr.adj, fr.Lam) = IMSc(fr.det, IId(d.n))
       /\ (d.fullrank => IPosDef(fr.GtPG))
       /\ \A v \in 1..2 : /\ RFormOk(gi.kind, gi.form, c.m, v)
                          /\ (pf.kind # "gmrf" => RFormOk(pf.kind, pf.form, d.n, v))
                          /\ MM(d.ver[v].C0, MR(d.ver[v].P0)) = MId(d.n) /\ MM(d.ver[v].Ce, MR(d.ver[v].Pe)) = MId(c.m)
       \* the two versions differ in every field (otherwise an assignment would test nothing)
       /\ d.ver[1].mu0 # d.ver[2].mu0 /\ d.ver[1].y # d.ver[2].y /\ d.ver[1].P0 # d.ver[2].P0 /\ d.ver[1].Pe # d.ver[2].Pe
       /\ d.ver[1].pparam # d.ver[2].pparam /\ d.ver[1].nparam # d.ver[2].nparam
       \* version 1 is the Gaussian of parts map / rto (same catalogue)
       /\ d.ver[1].Le = GaussL(gi.kind, c.m, 1) /\ (pf.kind # "gmrf" => d.ver[1].Lp = GaussL(pf.kind, d.n, 1))
ReassignIsFresh == Part = "reassign" =>
    LET fr == ReFresh(d, x) ob == ReObs(d, x)
    IN /\ ob.mu = fr.mu /\ ob.LamInv = fr.LamInv /\ ob.xml = fr.xml
       /\ (x.pc # 0 => d.ver[x.pc].C0 = d.ver[x.prior].C0)          \* a cached covariance is the covariance of the assigned value
       /\ (x.nc # 0 => d.ver[x.nc].Ce = d.ver[x.noise].Ce)

ReCase == LET fr == ReFresh(d, x) gi == GForm(c.i1) pf == PForm(c.j)
              ptype == IF pf.kind = "gmrf" THEN "GMRF" ELSE "Gaussian"
          IN [kind |-> "reassign", n |-> d.n, m |-> c.m, na |-> c.na, geo |-> "default", mk |-> c.mk, mdl |-> c.mdl, i1 |-> c.i1, j |-> c.j, av |-> c.av,
              sel |-> [mean |-> x.mean, prior |-> x.prior, noise |-> x.noise, data |-> x.data],
              A |-> d.A, E |-> IId(d.n), G |-> d.G, y |-> d.ver[x.data].y,
              noise |-> [kind |-> gi.kind, form |-> gi.form, shape |-> ParamShape(gi.kind), param_q |-> d.ver[x.noise].nparam],
              prior |-> [kind |-> pf.kind, form |-> pf.form, order |-> pf.order, delta |-> d.ver[x.prior].delta, shape |-> ParamShape(pf.kind),
                         param_q |-> d.ver[x.prior].pparam,
                         blocks |-> << [L |-> d.ver[x.prior].Lp, mu |-> d.ver[x.mean].mu0] >>],
              route |-> MapRoute(ptype, "Gaussian", "Linear", TRUE), sroute |-> SampleRoute(ptype, "Gaussian", "Linear", TRUE, TRUE),
              P0 |-> d.ver[x.prior].P0, Pe |-> d.ver[x.noise].Pe, C0_q |-> d.ver[x.prior].C0, Ce_q |-> d.ver[x.noise].Ce,
              Lam |-> fr.Lam, rhs |-> fr.rhs, mu_q |-> fr.mu, LamInv_q |-> fr.LamInv,
              fullrank |-> d.fullrank, xml_q |-> fr.xml, GtPG |-> fr.GtPG]
\* emission: one line per (configuration, versions assigned), at the state with empty caches
EmittedRe == (Emit /\ Part = "reassign" /\ x.pc = 0 /\ x.nc = 0) => PrintT("@@CASE " \o ToJson(ReCase) \o " @@END")

\* ===========================================================================
\* state machine
\* ===========================================================================
Configs == CASE Part = "rto"   -> RtoConfigs
             [] Part = "reassign" -> {r \in ReConfigs : SelRe(r)}
             [] Part = "ugla"  -> {r \in UglaConfigs : SelUgla(r)}
             [] Part = "map"   -> {r \in MapConfigs : SelMap(r)}
             [] Part = "poly"  -> PolyConfigs
             [] Part = "route" -> {[kind |-> "route"]}
Derived(r) == CASE Part = "rto"   -> RtoDerived(r)
                [] Part = "ugla"  -> UglaDerived(r)
                [] Part = "map"   -> MapDerived(r)
                [] Part = "poly"  -> PolyDerived(r)
                [] Part = "route" -> [none |-> 0]
                [] Part = "reassign" -> ReDerived(r)

Init == /\ c \in Configs
        /\ d = Derived(c)
        /\ k = -1
        /\ x \in (CASE Part = "rto" -> RtoInitStates(c.n) [] Part = "ugla" -> {VR(d.xk)} [] Part = "reassign" -> {ReInitState}
                     [] OTHER -> {<<>>})

\* one sampler transition with a scripted perturbation; RTO: from every reachable state (two successive draws);
\* UGLA: one transition from the lattice point (the next state is off the lattice)
RtoDraw  == /\ Part = "rto" /\ TLCGet("level") <= 2
            /\ \E q \in 0..d.N : /\ x' = RtoStep(d, x, q) /\ k' = q
            /\ UNCHANGED <<c, d>>
UglaDraw == /\ Part = "ugla" /\ k = -1 /\ d.ok
            /\ x' = UglaStep(d) /\ k' = 0
            /\ UNCHANGED <<c, d>>
\* part reassign: x is the abstract state of the ONE problem object (versions assigned, versions cached)
ReWarm   == /\ Part = "reassign"
            /\ x' = [x EXCEPT !.pc = IF PForm(c.j).kind = "gmrf" THEN 0 ELSE x.prior, !.nc = x.noise]   \* compute_cov() of both Gaussians
            /\ x' # x
            /\ UNCHANGED <<c, d, k>>
ReAssign == /\ Part = "reassign"
            /\ \E f \in ReFields :
                  /\ x[f] = 1
                  /\ x' = [x EXCEPT ![f] = 2,
                                    !.pc = IF f = "prior" /\ Dev # "StaleCovAfterReassign" THEN 0 ELSE @,
                                    !.nc = IF f = "noise" /\ Dev # "StaleCovAfterReassign" THEN 0 ELSE @]
            /\ UNCHANGED <<c, d, k>>
Next == RtoDraw \/ UglaDraw \/ ReWarm \/ ReAssign
Spec == Init /\ [][Next]_vars

\* emission: one line per configuration, at its first initial state
Emitted == (Emit /\ k = -1 /\ (Part = "rto" => x = VR(IZeroV(c.n)))) =>
             PrintT("@@CASE " \o ToJson(CASE Part = "rto" -> RtoCase [] Part = "ugla" -> UglaCase [] Part = "map" -> MapCase
                                          [] Part = "poly" -> PolyCase [] Part = "route" -> RouteCase) \o " @@END")
\* ===========================================================================
\* Part "hard": ILL-CONDITIONED instances of Linear RTO / UGLA (C06, round 5)
\* ===========================================================================
\* Every instance of parts rto / ugla is tiny AND perfectly conditioned: conjugate gradients reach the solution of the
\* stacked least-squares problem in <= n (+1) iterations whatever maxit / tol the user asked for, so an inner solver
\* that stops early (iteration cap, tolerance ignored) is invisible there.  The instances of this part have ONE scalar
\* measurement  y = g.x + noise  whose noise standard deviation is  sigma = 2^-se  (se >= 16: "small noise variance"),
\* and a prior of ordinary size (the catalogue of part rto, a diagonal prior with n = 6..12 distinct precisions, or the
\* local Gaussian of UGLA).  The normal matrix  Lambda = H + T g g^T  (H prior precision, T = sigma^-2 = 4^se) has one
\* eigenvalue ~ T |g|^2 and n - 1 eigenvalues of size O(1): cond(Lambda) >= T |g|^2 / trace(H) ~ 10^10 .. 10^13.  In
\* floating point the huge eigen-direction re-enters the Krylov space after every step (loss of orthogonality): CGLS
\* needs about 2 n iterations; the replayer demonstrates this on every instance (vacuity guard) before it counts it.
\*
\* Exact expectation with SMALL numbers although T = 4^se does not fit into 32 bits: T is kept SYMBOLIC.  With
\*     Hi = H^-1,  v = Hi g,  b = g.v,  u0 = Hi r0  (prior mean),  iota = y - g.u0  (innovation)
\* the posterior is, for EVERY T > 0 (Kalman / Sherman-Morrison form),
\*     Lambda(T)^-1 = Hi - kappa v v^T,      mu(T) = u0 + kappa iota v,      kappa = T / (1 + T b) = 1 / (b + sigma^2).
\* TLC computes Hi, v, b, u0, iota exactly (numbers of the size of the prior) and checks the polynomial identities
\*     (H + T g g^T) ((1 + T b) Hi - T v v^T) = (1 + T b) I,    (H + T g g^T) ((1 + T b) u0 + T iota v) = (1 + T b)(r0 + T y g)
\* coefficient by coefficient in T (HardKalmanForm, n <= 3) resp. through the facts they reduce to (HardReference: H Hi = I,
\* Hi symmetric, H v = g, b = g.v, H u0 = r0).  sigma is an exact rational of the spec (1 / 2^se); only the last step
\* kappa = 1 / (b + sigma^2) is evaluated by the replayer (exact fractions), as the atoms of lib/SymLog are.
\* Algorithm shaped: the prior part of the stacked operator / data as the code forms it (MtM0, Mtb0) against the
\* reference (H, r0): HardNormalEquations; the data row of the stacked operator is tau g with tau sigma = 1.
RECURSIVE HardPow2(_)
HardPow2(e) == IF e = 0 THEN 1 ELSE 2 * HardPow2(e - 1)
HardSq      == <<1, 2, 3, 4, 6, 8, 12, 16, 24, 32, 48, 64>>     \* square-root precisions of the diagonal prior (3-smooth: small common denominators)
HardG(n)    == [i \in 1..n |-> IF ((3 * i) % 5) - 2 = 0 THEN 1 ELSE ((3 * i) % 5) - 2]
HardMu(n)   == [i \in 1..n |-> (((i * i) + 1) % 3) - 1]            \* prior mean of the diagonal prior; g.mu # y for n = 6, 8, 12 (innovation # 0)
HardY       == YVec(1, 1)[1]

\* all configurations carry the same fields (unused ones 0 / "-")
HardRec(fam, pk, n, av, j, mk, mdl, lk, s, b, u, wv, se, nf) ==
    [kind |-> "hard", fam |-> fam, pk |-> pk, n |-> n, m |-> 1, av |-> av, i1 |-> 1, j |-> j, mk |-> mk, mdl |-> mdl,
     lk |-> lk, s |-> s, b |-> b, u |-> u, wv |-> wv, se |-> se, nf |-> nf]
HardNf(q)   == IF q % 2 = 0 THEN "sqrtprec" ELSE "sqrtcov"      \* input form of the noise: sqrtprec = tau, sqrtcov = sigma
\* Linear RTO, prior from the catalogue of part rto (all 22 forms), n = 2, 3
HardRtoCat  == { HardRec("rto", "cat", n, av, j, IF (j + n) % 2 = 0 THEN "vec" ELSE "scalar",
                         IF (j + av) % 2 = 0 THEN "matrix" ELSE "func", "-", 0, 0, 0, 0, se, HardNf(j + av + n)) :
                   n \in {2, 3}, av \in {1, 2}, j \in 1..NPF, se \in (IF Thorough THEN {18, 20} ELSE {20}) }
\* Linear RTO, diagonal prior with n distinct precisions HardSq[i]^2 given as vector (j = 6: prec, j = 8: sqrtprec)
HardRtoDiag == { HardRec("rto", "diag", n, 0, j, "vec", IF (j + n) % 4 = 0 THEN "matrix" ELSE "func", "-", 0, 0, 0, 0, 16, HardNf(j \div 2 + n \div 2)) :
                   n \in (IF Thorough THEN {6, 8, 12} ELSE {8}), j \in {6, 8} }
HardUglaAll == { HardRec("ugla", "lmrf", n, av, 0, "-", "-", lk, s, b, u, wv, 20, HardNf(u + s + av)) :
                   n \in (IF Thorough THEN {2, 3} ELSE {2}), av \in {1, 2}, lk \in {"zero", "scalar", "vec"}, s \in 1..3, b \in 1..2,
                   u \in 1..5, wv \in {0, 1} }
SelHard(r) ==
    CASE r.pk = "cat"  -> Thorough \/ (r.j \in {4, 8, 13, 16, 17, 20, 22} /\ (r.av = 1 \/ r.j \in {16, 22}))
      [] r.pk = "diag" -> TRUE
      [] r.pk = "lmrf" -> /\ UglaLattice(r) /\ (r.lk = "zero" => r.wv = 0) /\ (r.n = 3 => r.s = 1 /\ r.b = 1)
                          /\ (Thorough \/ ((r.u + r.s + r.av) % 3 = 0 /\ (r.b = 1 \/ r.u <= 2) /\ (r.av = 1 \/ r.lk = "vec")))
HardConfigs == {r \in HardRtoCat \cup HardRtoDiag \cup HardUglaAll : SelHard(r)}

HardRow(r)    == IF r.pk = "diag" THEN HardG(r.n) ELSE AMat(1, r.n, IF r.av = 0 THEN 1 ELSE r.av)[1]
HardBlocks(r) == IF r.pk = "diag" THEN << [L |-> IDiag([i \in 1..r.n |-> HardSq[i]]), mu |-> HardMu(r.n)] >>
                 ELSE PriorBlocks(PForm(r.j), r.n, r.mk)
HardPriorRec(r) == IF r.pk = "diag" THEN [kind |-> "vec", form |-> GForm(r.j).form, order |-> 0, delta |-> 0]
                   ELSE PForm(r.j)
HardPriorParam(r) ==
    IF r.pk = "diag" THEN [i \in 1..r.n |-> IF GForm(r.j).form = "prec" THEN R(HardSq[i] * HardSq[i]) ELSE R(HardSq[i])]
    ELSE IF PForm(r.j).kind \in {"gmrf", "joint"} THEN Zero ELSE GaussParam(PForm(r.j).kind, PForm(r.j).form, r.n, 1)

HardDerived(r) ==
    LET n    == r.n
        g    == HardRow(r)
        tau  == HardPow2(r.se)
        fam  == IF r.fam = "rto"
                THEN LET pbl  == HardBlocks(r)
                         P    == SumMats([q \in 1..Len(pbl) |-> IMM(IT(pbl[q].L), pbl[q].L)], IZeroM(n, n))       \* reference: prior precision
                         r0   == SumVecs([q \in 1..Len(pbl) |-> IMV(IMM(IT(pbl[q].L), pbl[q].L), pbl[q].mu)], IZeroV(n))
                         \* algorithm: prior rows of the stacked operator / of the stacked data as the code forms them
                         Mp   == Concat([q \in 1..Len(pbl) |-> pbl[q].L])
                         btp  == Concat([q \in 1..Len(pbl) |-> IF Dev = "PriorMeanNotWhitened" THEN pbl[q].mu \o IZeroV(Len(pbl[q].L) - n)
                                                                  ELSE IMV(pbl[q].L, pbl[q].mu)])
                         diag == r.pk = "diag"
                     IN [H |-> MR(P), r0 |-> VR(r0), MtM0 |-> MR(IMM(IT(Mp), Mp)), Mtb0 |-> VR(IMV(IT(Mp), btp)),
                         Hi |-> IF diag THEN MDiag([i \in 1..n |-> Q(1, P[i][i])]) ELSE QM(IAdj(P), IDet(P)),
                         pd |-> IF diag THEN P = IDiag([i \in 1..n |-> P[i][i]]) /\ \A i \in 1..n : P[i][i] > 0 ELSE IPosDef(P),
                         ok |-> TRUE, pbl |-> pbl, Np |-> Len(Mp), ud |-> <<>>]
                ELSE LET ud   == UglaDerived(r)
                         DtWD == MM(MT(MR(ud.D)), MM(MDiag(ud.w), MR(ud.D)))
                         opf  == Q(SqrtInvS[r.s][1], SqrtInvS[r.s][2])
                         rhf  == IF Dev = "UglaRhsUnscaled" THEN One ELSE opf
                         H    == MScale(RInv(ud.s), DtWD)                                      \* documented local prior N(loc, s (D^T W D)^-1)
                     IN [H |-> H, r0 |-> VScale(RInv(ud.s), MV(DtWD, VR(ud.loc))),
                         MtM0 |-> MScale(RMul(opf, opf), DtWD), Mtb0 |-> VScale(RMul(opf, rhf), MV(DtWD, VR(ud.loc))),
                         Hi |-> IF ud.ok THEN RatInv(H) ELSE H,
                         pd |-> MSym(H) /\ IPosDef(ToIntM(H, DenM(H))),
                         ok |-> ud.ok, pbl |-> <<>>, Np |-> Len(ud.D), ud |-> ud]
        v    == MV(fam.Hi, VR(g))
        u0   == MV(fam.Hi, fam.r0)
    IN [n |-> n, g |-> g, y |-> HardY, tau |-> tau, sigma |-> Q(1, tau), v |-> v, b |-> Dot(VR(g), v), u0 |-> u0,
        iota |-> RSub(R(HardY), Dot(VR(g), u0)), gg |-> IDot(g, g)] @@ fam

\* ---- invariants of part hard ----------------------------------------------------
HardReference == Part = "hard" =>
    /\ d.ok /\ d.pd /\ MSym(d.H) /\ MSym(d.Hi)
    /\ RMul(d.sigma, R(d.tau)) = One /\ c.se >= 16                        \* whitening of the datum: tau = 1 / sigma
    /\ MM(d.H, d.Hi) = MId(d.n)
    /\ MV(d.H, d.v) = VR(d.g) /\ d.b = Dot(VR(d.g), d.v) /\ RLt(Zero, d.b)
    /\ MV(d.H, d.u0) = d.r0
    /\ d.iota = RSub(R(d.y), Dot(VR(d.g), d.u0))
HardNormalEquations == Part = "hard" =>
    /\ d.MtM0 = d.H                                                        \* prior rows of M: their Gram matrix is the prior precision
    /\ d.Mtb0 = d.r0                                                       \* prior rows of M^T b~: precision times prior mean
\* cond_2(Lambda) >= lambda_max / lambda_min >= (T |g|^2) / trace(H)  (a unit vector orthogonal to g exists for n >= 2);
\* with trace(H) <= 2^12 |g|^2 and T = 4^se, se >= 16:  cond >= 2^20 ... and in fact ~ 2^(2 se)
HardIllConditioned == Part = "hard" =>
    /\ d.n >= 2 /\ d.gg > 0
    /\ RLe(RSumSeq([i \in 1..d.n |-> d.H[i][i]]), R(4096 * d.gg))
    /\ (c.pk = "diag" => d.iota # Zero)                                    \* the posterior mean is not simply the prior mean
\* the two polynomial identities, coefficient by coefficient (T^0, T^1, T^2); n <= 3 (the outer products overflow 32 bit beyond)
HardKalmanForm == (Part = "hard" /\ d.n <= 3) =>
    LET n   == d.n
        gq  == VR(d.g)
        G   == F([i \in 1..n |-> [j \in 1..n |-> R(d.g[i] * d.g[j])]])
        VV  == F([i \in 1..n |-> [j \in 1..n |-> RMul(d.v[i], d.v[j])]])
        gu  == Dot(gq, d.u0)
        MAddS(A, B) == F([i \in 1..n |-> VAddS(A[i], B[i])])          \* sums over the least common denominator (32 bit)
        MSubS(A, B) == F([i \in 1..n |-> VSubS(A[i], B[i])])
    IN /\ MM(d.H, d.Hi) = MId(n)
       /\ MAddS(MSubS(MScale(d.b, MM(d.H, d.Hi)), MM(d.H, VV)), MM(G, d.Hi)) = MScale(d.b, MId(n))
       /\ MSubS(MScale(d.b, MM(G, d.Hi)), MM(G, VV)) = MZero(n, n)
       /\ MV(d.H, d.u0) = d.r0
       /\ VAddS(VAddS(VScale(d.b, MV(d.H, d.u0)), VScale(d.iota, MV(d.H, d.v))), VScale(gu, gq)) = VAddS(VScale(d.b, d.r0), VScale(R(d.y), gq))
       /\ VAddS(VScale(RMul(d.b, gu), gq), VScale(RMul(d.iota, d.b), gq)) = VScale(RMul(d.b, R(d.y)), gq)

HardNoise == [kind |-> "scal", form |-> c.nf, shape |-> "scalar", param_q |-> IF c.nf = "sqrtprec" THEN R(d.tau) ELSE d.sigma]
HardCase ==
    LET common == [kind |-> "hard", fam |-> c.fam, pk |-> c.pk, n |-> c.n, se |-> c.se, av |-> c.av, g |-> d.g, yv |-> d.y,
                   tau |-> d.tau, sigma_q |-> d.sigma, H_q |-> d.H, Hi_q |-> d.Hi, u0_q |-> d.u0, v_q |-> d.v, b_q |-> d.b,
                   iota_q |-> d.iota, Np |-> d.Np]
    IN IF c.fam = "rto"
       THEN common @@
            [nl |-> 1, m |-> <<1>>, mk |-> c.mk, mdl |-> c.mdl, j |-> c.j,
             A |-> << <<d.g>> >>, y |-> << <<d.y>> >>, Ln |-> << << <<d.tau>> >> >>, noise |-> << HardNoise >>,
             prior |-> LET pf == HardPriorRec(c)
                       IN [kind |-> pf.kind, form |-> pf.form, order |-> pf.order, delta |-> pf.delta, shape |-> ParamShape(pf.kind),
                           param_q |-> HardPriorParam(c),
                           blocks |-> [q \in 1..Len(d.pbl) |-> [L |-> d.pbl[q].L, mu |-> d.pbl[q].mu]]]]
       ELSE common @@
            [m |-> 1, lk |-> c.lk, wv |-> c.wv, u |-> c.u, si |-> c.s, bi |-> c.b,
             A |-> <<d.g>>, y |-> <<d.y>>, Ln |-> << <<d.tau>> >>, noise |-> HardNoise,
             D |-> d.ud.D, xk |-> d.ud.xk, loc |-> d.ud.loc, beta_q |-> d.ud.beta, scale_q |-> d.ud.s, w_q |-> d.ud.w]
EmittedHard == (Emit /\ Part = "hard") => PrintT("@@CASE " \o ToJson(HardCase) \o " @@END")

\* configuration enumeration: no transition (the statement holds for every sigma, the replayer performs the draws)
InitHard == /\ Part = "hard" /\ c \in HardConfigs /\ d = HardDerived(c) /\ x = <<>> /\ k = -1
NextHard == UNCHANGED vars
=============================================================================
