----------------------------- MODULE JointCond -----------------------------
(***************************************************************************)
(* Conditioning of a JointDistribution (property C01).                     *)
(*                                                                         *)
(* A model graph over variables V = 1..N: par[v] = variables the factor of  *)
(* v depends on besides v itself (every variable has exactly one factor -   *)
(* JointDistribution refuses parameters without a prior - and cycles are    *)
(* accepted by the constructor, so all digraphs without self-loops are      *)
(* explored).  Factor order = numeric order of V (the order in which the    *)
(* densities are passed), which is also the positional order.              *)
(*                                                                         *)
(* One action per code path of JointDistribution._condition:               *)
(*   per-factor conditioning by parameter-name matching                    *)
(*      dist(v, open)  --S-->  dist(v, open \ S)            if v \notin S   *)
(*                             lik(v, open \ S) / eval(v)   if v \in S      *)
(*      lik(v, open)   --S-->  lik(v, open \ S) / eval(v)                   *)
(*   followed by _reduce_to_single_density (counts of distributions and    *)
(*   likelihoods, the parameter-name test for Posterior, constants folded  *)
(*   with _add_constants_to_density, the likelihood-only branch that does  *)
(*   NOT fold constants).                                                  *)
(* A token t(v) stands for "log-density of the original factor of v at the *)
(* complete assignment".  The state records where every token lives:      *)
(* in a live factor (dist/lik), in an evaluated factor kept in the list,   *)
(* or folded into the constant of the reduced density.                     *)
(*                                                                         *)
(* Named deviations (FALSE in the deciding configuration):                 *)
(*   DevDropConstants  - reduction to Posterior/Distribution forgets the   *)
(*                       evaluated factors                                  *)
(*   DevFoldTwice      - constants are added although the evaluated        *)
(*                       factors stay in the list                          *)
(***************************************************************************)
EXTENDS Integers, Sequences, FiniteSets, TLC, Json

CONSTANTS N, MaxSteps, Emit, DevDropConstants, DevFoldTwice

V == 1..N

VARIABLES par,      \* [V -> SUBSET V]     the graph
          fixed,    \* set of fixed variables
          kindOf,   \* [V -> {"dist", "lik", "eval"}]  state of each factor
          open,     \* [V -> SUBSET V]     free parameters of each factor besides its own variable
          shape,    \* class of the object returned by the last conditioning
          folded,   \* tokens carried by the constant of the reduced density
          kept,     \* evaluated factors that remain factors of the returned object
          hist      \* sequence of <<S, mode, resulting shape>> (history variable)

vars == <<par, fixed, kindOf, open, shape, folded, kept, hist>>

Free == V \ fixed
Dists == {v \in V : kindOf[v] = "dist"}
Liks  == {v \in V : kindOf[v] = "lik"}
Evals == {v \in V : kindOf[v] = "eval"}
Params(v) == (IF kindOf[v] = "dist" THEN {v} ELSE {}) \cup open[v]

\* parameter names of the current object, in positional order (names of the distributions, factor order)
RECURSIVE SortedSeq(_)
SortedSeq(S) == IF S = {} THEN <<>> ELSE LET m == CHOOSE x \in S : \A y \in S : x <= y IN <<m>> \o SortedSeq(S \ {m})
ParamOrder == SortedSeq(Free)
PrefixSets == {{ParamOrder[i] : i \in 1..k} : k \in 1..Len(ParamOrder)}

Init == /\ par \in [V -> SUBSET V] /\ \A v \in V : v \notin par[v]
        /\ fixed = {} /\ kindOf = [v \in V |-> "dist"] /\ open = par
        /\ shape = "Joint" /\ folded = {} /\ kept = {} /\ hist = <<>>

\* the reduction hack, exactly as coded
Reduce(kd, op) ==
    LET D == {v \in V : kd[v] = "dist"}
        L == {v \in V : kd[v] = "lik"}
        E == {v \in V : kd[v] = "eval"}
        nd == Cardinality(D)  nl == Cardinality(L)
    IN  IF nd > 1 THEN <<"Joint", {}, E>>
        ELSE IF nd = 1 /\ nl > 1 THEN <<"MultiLik", {}, E>>
        ELSE IF nd = 1 /\ nl = 1 THEN
               LET d == CHOOSE v \in D : TRUE  l == CHOOSE v \in L : TRUE
               IN IF op[l] # ({d} \cup op[d]) THEN <<"Joint", {}, E>>
                  ELSE <<"Posterior", IF DevDropConstants THEN {} ELSE E, IF DevFoldTwice THEN E ELSE {}>>
        ELSE IF nd = 1 /\ nl = 0 THEN <<"Distribution", IF DevDropConstants THEN {} ELSE E, IF DevFoldTwice THEN E ELSE {}>>
        ELSE IF nd = 0 /\ nl = 1 THEN <<"Likelihood", {}, {}>>          \* constants are not folded in this branch
        ELSE <<"ConstJoint", {}, E>>

Condition(S, mode) ==
    /\ Len(hist) < MaxSteps
    /\ S # {} /\ S \subseteq Free
    /\ (mode = "pos" => S \in PrefixSets)
    /\ LET op2 == [v \in V |-> open[v] \ S]
           kd2 == [v \in V |-> IF kindOf[v] = "eval" THEN "eval"
                               ELSE IF kindOf[v] = "dist" /\ v \notin S THEN "dist"
                               ELSE IF op2[v] = {} THEN "eval" ELSE "lik"]
           r == Reduce(kd2, op2)
       IN /\ open' = op2 /\ kindOf' = kd2
          /\ shape' = r[1] /\ folded' = r[2] /\ kept' = r[3]
    /\ fixed' = fixed \cup S
    /\ hist' = Append(hist, <<SortedSeq(S), mode, shape'>>)
    /\ UNCHANGED par

NoHist == <<par, fixed, kindOf, open, shape, folded, kept>>      \* cfg VIEW: hides the history variable

Next == \E S \in SUBSET V, mode \in {"kw", "pos"} : Condition(S, mode)
Spec == Init /\ [][Next]_vars

\* ------------------------------ properties ------------------------------
\* every original factor is counted exactly once: live, kept as an evaluated factor, or folded into the constant
ExactlyOnce == /\ (Dists \cup Liks) \cup kept \cup folded = V
               /\ kept \cap folded = {} /\ (Dists \cup Liks) \cap (kept \cup folded) = {}
\* the free variables of the result are exactly the variables not yet fixed
FreeVars == Dists = Free /\ (\A v \in V : open[v] \subseteq Free)
\* the likelihood-only branch of the reduction (which would lose the constants) is unreachable
LikUnreachable == shape # "Likelihood"
\* the abstract result depends only on the set of fixed variables, not on order / grouping / passing mode
OrderIndependent ==
    LET op0 == [v \in V |-> par[v] \ fixed]
        kd0 == [v \in V |-> IF v \notin fixed THEN "dist" ELSE IF op0[v] = {} THEN "eval" ELSE "lik"]
    IN kindOf = kd0 /\ open = op0 /\ (fixed # {} => <<shape, folded, kept>> = Reduce(kd0, op0))
\* shapes are consistent with what is left
ShapeOK == /\ (shape = "Posterior" => Cardinality(Dists) = 1 /\ Cardinality(Liks) = 1)
           /\ (shape = "ConstJoint" => Free = {})

\* ------------------------------ emission ------------------------------
Emitted == (Emit /\ (Len(hist) = MaxSteps \/ Free = {})) =>
             PrintT("@@CASE " \o ToJson([kind |-> "cond", n |-> N, par |-> [v \in V |-> SortedSeq(par[v])], hist |-> hist,
                                         shape |-> shape, fixed |-> SortedSeq(fixed), folded |-> SortedSeq(folded),
                                         kept |-> SortedSeq(kept)]) \o " @@END")
=============================================================================
