#!/usr/bin/env python3
"""Confirm a candidate breaking change produced by an independent sub-agent and, if confirmed, keep it under
/verif/seeded/<name>/ (patch.diff, demo.py, meta.json).

  tools_confirm_mutant.py <name> <patch> <demo> <property> "<what>" "<needs>" [--suite full|quick]

Confirmation = in a scratch git worktree of /repo HEAD (removed afterwards):
  1. the demonstration passes on the clean tree (exit 0),
  2. the patch applies, the package imports,
  3. the demonstration fails with the patch (exit != 0),
  4. the existing test suite still passes with the patch (full suite by default, BLAS threads pinned).
"""
import json, os, shutil, subprocess, sys

PY = "/venv/bin/python"


def sh(cmd, **kw):
    return subprocess.run(cmd, shell=True, stdout=subprocess.PIPE, stderr=subprocess.STDOUT, text=True, **kw)


def main():
    name, patch, demo, prop, what, needs = sys.argv[1:7]
    suite = "full"
    if "--suite" in sys.argv:
        suite = sys.argv[sys.argv.index("--suite") + 1]
    wt = "/tmp/confirm_%s" % name
    sh("git -C /repo worktree remove --force %s" % wt)
    r = sh("git -C /repo worktree add --detach %s HEAD" % wt)
    ran = []
    ok = False
    try:
        env = dict(os.environ, PYTHONPATH=wt, OMP_NUM_THREADS="1", OPENBLAS_NUM_THREADS="1", MKL_NUM_THREADS="1", TQDM_DISABLE="1")
        d0 = sh("%s %s" % (PY, demo), env=env, cwd="/tmp", timeout=3000)
        ran.append("demo on clean tree: exit %d" % d0.returncode)
        a = sh("git -C %s apply %s" % (wt, patch))
        ran.append("git apply: exit %d" % a.returncode)
        if d0.returncode != 0 or a.returncode != 0:
            print(name, "REJECTED", ran, (d0.stdout + a.stdout)[-400:])
            return 1
        d1 = sh("%s %s" % (PY, demo), env=env, cwd="/tmp", timeout=3000)
        ran.append("demo with change: exit %d" % d1.returncode)
        if d1.returncode == 0:
            print(name, "REJECTED (demo passes with the change)", ran)
            return 1
        import re
        tests = "tests" if suite == "full" else suite
        if "--assume-suite" in sys.argv:
            summary = [sys.argv[sys.argv.index("--assume-suite") + 1]]
            ran.append("pytest tests (run earlier by this tool on the same patch): %s" % summary[-1])
        else:
            t = sh("cd %s && %s -m pytest -q -p no:cacheprovider --timeout=900 -x %s 2>&1 | tail -3" % (wt, PY, tests), env=env, timeout=7200)
            summary = [l for l in t.stdout.splitlines() if re.search(r"\d+ (passed|failed|error)", l)]
            ran.append("pytest %s: %s" % (tests, summary[-1] if summary else t.stdout[-200:]))
        if not summary or re.search(r"\d+ (failed|error)", summary[-1]) or not re.search(r"\d+ passed", summary[-1]):
            print(name, "REJECTED (test suite does not pass)", ran)
            return 1
        ok = True
        d = os.path.join("/verif/seeded", name)
        os.makedirs(d, exist_ok=True)
        shutil.copy(patch, os.path.join(d, "patch.diff"))
        shutil.copy(demo, os.path.join(d, "demo.py"))
        json.dump({"breaks": prop, "what": what, "needs_to_manifest": needs, "source": "independent sub-agent given only the property text",
                   "confirmed": ran, "repo_head": sh("git -C /repo rev-parse --short HEAD").stdout.strip()},
                  open(os.path.join(d, "meta.json"), "w"), indent=1)
        print(name, "CONFIRMED", ran)
        return 0
    finally:
        sh("git -C /repo worktree remove --force %s" % wt)


if __name__ == "__main__":
    sys.exit(main())
