#!/usr/bin/env python3
"""Regenerate MANIFEST.json from harness/cuqiverif/registry.py (single source of truth)."""
import json, sys, os
sys.path.insert(0, os.path.join(os.path.dirname(os.path.abspath(__file__)), "harness"))
from cuqiverif import registry
json.dump(registry.manifest(), open(os.path.join(os.path.dirname(os.path.abspath(__file__)), "MANIFEST.json"), "w"), indent=1)
print("MANIFEST.json written:", len(registry.manifest()["checks"]), "checks,", len(registry.manifest().get("not_applicable", [])), "not_applicable")
