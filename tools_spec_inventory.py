#!/usr/bin/env python3
"""Regenerate the specification inventory table of DESIGN.md (between SPEC-INVENTORY markers)."""
import glob, os, re
ROOT = os.path.dirname(os.path.abspath(__file__))
rows = []
helpers = glob.glob(os.path.join(ROOT, "harness/cuqiverif/*.py")) + glob.glob(os.path.join(ROOT, "harness/cuqiverif/props/*.py"))
src = {p: open(p).read() for p in helpers}
def users(mod):
    out = set()
    pat = re.compile(r'(%s\.tla|["\']%s\.[A-Za-z_@]|(tlc|validate|corrupt_selftest|check)\([^\n]{0,120}?["\']%s["\']|spec\s*=\s*["\']%s["\'])' % ((re.escape(mod),) * 4))
    direct = {p for p, s in src.items() if pat.search(s)}
    for p in direct:
        b = os.path.basename(p)
        m = re.match(r"c(\d\d)", b)
        if m:
            out.add("C" + m.group(1))
        else:
            # helper module: attribute to the props modules importing it
            name = b[:-3]
            for q, s in src.items():
                mm = re.match(r"c(\d\d)\.py", os.path.basename(q))
                if mm and re.search(r"\b%s\b" % re.escape(name), s):
                    out.add("C" + mm.group(1))
    return sorted(out)
for f in sorted(glob.glob(os.path.join(ROOT, "specs/*.tla")) + glob.glob(os.path.join(ROOT, "specs/lib/*.tla"))):
    mod = os.path.basename(f)[:-4]
    txt = open(f).read()
    lines = txt.count("\n")
    m = re.search(r"\(\*+\)\s*\n\(\*\s*(.*?)\s*\*\)", txt)
    title = (m.group(1) if m else "").strip()
    cfgs = glob.glob(os.path.join(ROOT, "specs/cfg/%s.*.cfg" % mod))
    devs = [c for c in cfgs if re.search(r"(dev_|\.deviation\.|\.dev\.)", os.path.basename(c))]
    ext = re.findall(r"^EXTENDS\s+(.*)$", txt, re.M)
    rows.append((("lib/" if "/lib/" in f else "") + mod, lines, len(cfgs), len(devs), ", ".join(users(mod)), title[:110]))
tab = ["| module | lines | cfgs | deviation cfgs (must be refuted) | used by | first line of its header |", "|---|---|---|---|---|---|"]
for r in rows:
    tab.append("| `%s` | %d | %d | %d | %s | %s |" % r)
tab.append("")
tab.append("Total: %d modules, %d lines of TLA+, %d configurations of which %d are named deviations." % (
    len(rows), sum(r[1] for r in rows), sum(r[2] for r in rows), sum(r[3] for r in rows)))
p = os.path.join(ROOT, "DESIGN.md")
s = open(p).read()
a, b = "<!-- SPEC-INVENTORY-BEGIN -->", "<!-- SPEC-INVENTORY-END -->"
if a not in s:
    raise SystemExit("markers missing")
i, j = s.index(a) + len(a), s.index(b)
open(p, "w").write(s[:i] + "\n" + "\n".join(tab) + "\n" + s[j:])
print("inventory: %d modules" % len(rows))
