#!/usr/bin/env python3
"""Regenerate the table of seeded breaking changes in DESIGN.md (between the SEEDED-TABLE markers) from
seeded/*/meta.json and seeded/RESULTS.json."""
import json, os, re
HERE = os.path.dirname(os.path.abspath(__file__))
res = {}
p = os.path.join(HERE, "seeded", "RESULTS.json")
if os.path.exists(p):
    res = {r["name"]: r for r in json.load(open(p))}
rows = []
for name in sorted(os.listdir(os.path.join(HERE, "seeded"))):
    d = os.path.join(HERE, "seeded", name)
    if not os.path.isdir(d):
        continue
    m = json.load(open(os.path.join(d, "meta.json")))
    r = res.get(name, {})
    chk = r.get("checks", {})
    first = ""
    for c, v in chk.items():
        if v.get("first"):
            first = v["first"]
            break
    sig = ""
    mm = re.search(r"signature: (\S+)", first or "")
    if mm:
        sig = mm.group(1)
    rows.append("| %s | %s | %s | %s | %s | `%s` |" % (name, m["breaks"], m["what"].replace("|", "/")[:170], m["needs_to_manifest"].replace("|", "/")[:120],
                                                 r.get("status", "not run"), sig[:80]))
table = "\n".join(["| seeded change | breaks | what | needs to manifest | quick check | first mismatch signature |", "|---|---|---|---|---|---|"] + rows)
path = os.path.join(HERE, "DESIGN.md")
s = open(path).read()
a, b = "<!-- SEEDED-TABLE-BEGIN -->", "<!-- SEEDED-TABLE-END -->"
if a not in s:
    s += "\n" + a + "\n" + b + "\n"
s = s[:s.index(a) + len(a)] + "\n" + table + "\n" + s[s.index(b):]
open(path, "w").write(s)
print(len(rows), "rows;", sum(1 for n in res.values() if n.get("status") == "CAUGHT"), "caught")
