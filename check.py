#!/venv/bin/python
"""CLI of the verification machinery.

  check.py <ID> --tier quick|thorough        run the property's check (writes evidence/<ID>.json)
  check.py <ID> --replay <replay file>       re-execute the failing case(s) stored in a replay file

exit 0: property held on everything explored (KNOWN-FINDING lines may be printed)
exit 1: at least one `VIOLATION property=<ID> replay=<path>` line was printed
exit 2: machinery failure (TLC crash, parse error, vacuous model, missing wrapper target)
"""
import argparse, importlib, json, os, sys, traceback

HERE = os.path.dirname(os.path.abspath(__file__))
sys.path.insert(0, os.path.join(HERE, "harness"))
os.environ.setdefault("CUQIPY_VERIF", "1")
os.environ.setdefault("TQDM_DISABLE", "1")
for _v in ("OMP_NUM_THREADS", "OPENBLAS_NUM_THREADS", "MKL_NUM_THREADS"):
    os.environ.setdefault(_v, "1")        # small problems: BLAS threads only oversubscribe the machine
os.chdir(HERE)


def main():
    ap = argparse.ArgumentParser()
    ap.add_argument("pid")
    ap.add_argument("--tier", default=os.environ.get("VERIF_TIER", "quick"), choices=["quick", "thorough"])
    ap.add_argument("--seed", type=int, default=int(os.environ.get("VERIF_SEED", "0") or 0))
    ap.add_argument("--replay")
    a = ap.parse_args()
    pid = a.pid.upper()
    repo = os.environ.get("CUQIVERIF_REPO", "/repo")   # development only: point the checks at a scratch worktree
    if repo != "/repo":
        sys.path.insert(0, repo)
    from cuqiverif.core import Run, MachineryError
    ctx = Run(pid, a.tier, a.seed, replay=a.replay)
    try:
        mod = importlib.import_module("cuqiverif.props.%s" % pid.lower())
    except ModuleNotFoundError as e:
        print("no check for %s: %s" % (pid, e))
        return 2
    try:
        import cuqi  # noqa: F401  (fresh import of the repository's working tree)
        assert os.path.realpath(cuqi.__file__).startswith(os.path.realpath(repo) + "/"), cuqi.__file__
        if a.replay:
            rp = json.load(open(a.replay))
            cases = [rp["first"]["case"]] + rp.get("others", [])
            for c in cases:
                mod.replay(ctx, c)
        else:
            mod.run(ctx)
        return ctx.finish()
    except MachineryError as e:
        return ctx.finish(error=e)
    except Exception as e:
        traceback.print_exc()
        return ctx.finish(error="%s: %s" % (type(e).__name__, e))


if __name__ == "__main__":
    sys.exit(main())
