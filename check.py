#!/venv/bin/python
"""CLI of the verification machinery.

  check.py <ID> --tier quick|thorough        run the property's check (writes evidence/<ID>.json)
  check.py <ID> --replay <replay file>       re-execute the failing case(s) stored in a replay file

exit 0: property held on everything explored (KNOWN-FINDING lines may be printed)
exit 1: at least one `VIOLATION property=<ID> replay=<path>` line was printed
exit 2: machinery failure (TLC crash, parse error, vacuous model, missing wrapper target)

Exit code 1 is produced in exactly one place (Run.finish, after printing a VIOLATION line); every other way of
leaving this program abnormally - bad arguments, unreadable replay file, an exception anywhere in the machinery - is 2.
"""
import argparse, importlib, json, os, sys, traceback

HERE = os.path.dirname(os.path.abspath(__file__))
sys.path.insert(0, os.path.join(HERE, "harness"))
os.environ.setdefault("CUQIPY_VERIF", "1")
os.environ.setdefault("TQDM_DISABLE", "1")
for _v in ("OMP_NUM_THREADS", "OPENBLAS_NUM_THREADS", "MKL_NUM_THREADS"):
    os.environ.setdefault(_v, "1")        # small problems: BLAS threads only oversubscribe the machine
CALLER_CWD = os.getcwd()
os.chdir(HERE)


def _env_seed():
    raw = os.environ.get("VERIF_SEED", "0") or "0"
    try:
        return int(raw)
    except ValueError:
        print("MACHINERY-ERROR VERIF_SEED=%r is not an integer" % raw)
        sys.exit(2)


def main():
    ap = argparse.ArgumentParser()
    ap.add_argument("pid")
    ap.add_argument("--tier", default=None, choices=["quick", "thorough"])
    ap.add_argument("--seed", type=int, default=_env_seed())
    ap.add_argument("--replay")
    a = ap.parse_args()
    tier = a.tier or os.environ.get("VERIF_TIER") or "quick"
    if tier not in ("quick", "thorough"):
        print("MACHINERY-ERROR VERIF_TIER=%r is neither quick nor thorough" % tier)
        return 2
    a.tier = tier
    pid = a.pid.upper()
    if a.replay and not os.path.isabs(a.replay):
        # a relative replay path is relative to where the user stands, not to this file (we chdir'ed above)
        cand = os.path.join(CALLER_CWD, a.replay)
        a.replay = cand if os.path.exists(cand) else os.path.join(HERE, a.replay)
    repo = os.environ.get("CUQIVERIF_REPO", "/repo")   # development only: point the checks at a scratch worktree
    if repo != "/repo":
        sys.path.insert(0, repo)
    from cuqiverif.core import Run, MachineryError
    try:
        mod = importlib.import_module("cuqiverif.props.%s" % pid.lower())
    except ModuleNotFoundError as e:
        print("no check for %s: %s" % (pid, e))
        return 2
    ctx = Run(pid, a.tier, a.seed, replay=a.replay)
    try:
        import cuqi  # noqa: F401  (fresh import of the repository's working tree)
        assert os.path.realpath(cuqi.__file__).startswith(os.path.realpath(repo) + "/"), cuqi.__file__
        if a.replay:
            rp = json.load(open(a.replay))
            if rp.get("property", pid) != pid:
                raise MachineryError("replay file %s belongs to property %s, not %s" % (a.replay, rp.get("property"), pid))
            cases = [rp["first"]["case"]] + rp.get("others", [])
            for c in cases:
                mod.replay(ctx, c)
        else:
            mod.run(ctx)
        return ctx.finish()
    except MachineryError as e:
        return ctx.finish(error=e)
    except Exception as e:
        traceback.print_exc()
        return ctx.finish(error="%s: %s" % (type(e).__name__, e))


if __name__ == "__main__":
    try:
        rc = main()
    except SystemExit:
        raise
    except KeyboardInterrupt:
        rc = 130
    except BaseException:       # anything that escaped (also from Run.finish itself): machinery, never "VIOLATION"
        traceback.print_exc()
        print("MACHINERY-ERROR uncaught exception in the check driver")
        rc = 2
    sys.exit(rc)
